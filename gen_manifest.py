#!/usr/bin/env python3
"""Regenerates MANIFEST.json from the table below (kept in one place so the
manifest is always valid)."""
import json, os
V = os.path.dirname(os.path.abspath(__file__))

CLAIMED = {
 "C03": dict(cat="model_checking", ref="DESIGN.md sections 5 C03, 11",
   text="Bounded model checking (Kani/CBMC) of the asynchronous resamplers through the public API: concrete construction and warm-up, then a ratio change with EVERY accepted f64 (D_full for Nearest/Linear fixed-output; k/32 grid for multi-frame fixed-input loops and blending degrees in the quick tier) and ramp on/off, then a call with caller buffers of symbolic surplus length; histories with reset(), three successive changes, oversampling factor 1; every CBMC memory-safety / unsafe-precondition / overflow / panic check must hold and calls must return Ok. Sinc types run the real position logic against a probing interpolator asserting the kernel contract; the callee-side contract of get_nearest_time(s_2/3/4) is decided bit-precisely for all |t|<2^20, factor<=2048 on the MIR (mirsym+z3).",
   note="bounds per harness in evidence (chunk 2-3, max_rel 2-3, 1 channel, warm-up + 1 symbolic step; 2 symbolic steps thorough only); AVX/SSE kernel bodies are decided under C15, FFT bookkeeping under C04/C07 with a stub FFT; recorded findings: F-OS1 (oversampling 1 with Quadratic/Cubic), F5 (ratio jumps on the fixed-input types whose reciprocals are more than ~3 frames apart, region recip_span_ge3); leaf note: t in [-2^-54,0) excluded (no reaching history known)",
   technique="bounded model checking of compiled code (Kani/CBMC SAT) + SMT (z3 FP) over symbolic execution of MIR for the leaf contract"),
 "C04": dict(cat="model_checking", ref="DESIGN.md sections 5 C04, 11",
   text="Frame-count monitors on the C03 runs and on the synchronous (FFT) step family: next<=max before and after every call, consumed == input_frames_next, written <= / == output_frames_next, returned count == frames actually written (sentinel oracle over the caller's backing array), nothing written beyond the advertised count; FFT types: concrete rate/chunk/sub-chunk configurations incl. chunk = multiple of the block, block larger than the chunk, chunk smaller than the block.",
   note="as C03; sentinel oracle assumes the resampler never writes the sentinel value itself; FFT is a stub (block bookkeeping only)",
   technique="bounded model checking of compiled code (Kani/CBMC SAT) with sentinel-buffer oracle"),
 "C05": dict(cat="model_checking", ref="DESIGN.md sections 5 C05, 11",
   text="Two instances fed the same stream in different chunkings / FixedIn vs FixedOut / FFT variants with the same block: common output prefix bit-identical, for EVERY finite input signal where the kernel is copy-only (Nearest; symbolic samples), index signal elsewhere; set_chunk_size in mid-stream with symbolic new size: strict probe (every window on supplied line data) and uniform instants.",
   note="concrete ratios (0.75, 1, 1.5), chunk sizes <= 8, prefixes of 6-8 frames; numerical agreement of blending kernels across chunkings follows from equal instants+windows (not separately checked)",
   technique="bounded model checking of compiled code (Kani/CBMC SAT), twin instances, symbolic signal"),
 "C06": dict(cat="model_checking", ref="DESIGN.md sections 5 C06, 11",
   text="Index-signal observation: with Linear interpolation every output value IS its evaluation instant. After 2 warm-up calls a ratio change (k/32 grid quick, every f64 thorough; ramp symbolic) and the following chunk: instants strictly increasing, spacing within [1/old,1/new], stepped change immediate, ramp monotone, every read window inside supplied input (probe checks each tap on the line); the chunk after a ramp runs at exactly 1/new.",
   note="FastFixedOut and SincFixedOut(+Probe(8,2)) chunk 3 in the quick tier, FixedIn types and chunk 20 thorough; recorded finding F6 (region ramp_down_sinc: input need from mean ratio vs advance by mean reciprocal); tolerance 2^-36 on instants",
   technique="bounded model checking of compiled code (Kani/CBMC SAT) with index-signal observation and probing interpolator"),
 "C07": dict(cat="model_checking", ref="DESIGN.md sections 5 C07, 11",
   text="State bound that implies no drift, on explored prefixes: constant ratio (symbolic, set once): spacing across chunk boundaries equals 1/r and the lag supplied-minus-evaluated stays within filter+1/r+3 (FastFixedOut; FastFixedIn at slow ratios 1/r>7); synchronous types: 0 <= in*rate_out - out*rate_in < one block after every call (== 0 for FixedInOut), FixedInOut block sizes exact/smallest, for concrete configurations incl. block > chunk.",
   note="prefixes of 2-6 calls; the inductive extension to unbounded streams is NOT claimed (would need injected states); FFT stub",
   technique="bounded model checking of compiled code (Kani/CBMC SAT), index-signal observation, integer accounting"),
 "C08": dict(cat="model_checking", ref="DESIGN.md sections 5 C08, 11",
   text="(a) mirsym executes the MIR of interp_septic/quintic/cubic/lin (and the sinc-side cubic/quad/lin) with T := Real and z3+cvc5 decide exactness for ALL real x and ALL polynomials of admissible degree (unsat of the negation; cvc5 cross-check on basis+linearity). (b) Kani: window selection and uniform instants: frame j is evaluated at -4+(j+1)/ratio (FastFixedOut symbolic ratio; FastFixedIn Quintic/Septic/Cubic at concrete non-integer ratios; FastFixedOut with an output chunk smaller than the ratio, i.e. calls that take no new input).",
   note="real-number reading of generic T (assumption A-round bridges to floats); (b) bounded to 2-3 calls, chunk <= 8",
   technique="SMT (z3 nlsat + cvc5) over symbolic execution of rustc MIR; bounded model checking (Kani) for window selection"),
 "C09": dict(cat="model_checking", ref="DESIGN.md sections 5 C09, 11",
   text="The global allocator entry points - the four public ones and the private realloc_nonnull / dealloc_nonnull that Vec growth and drops use in this std - are stubbed by asserting wrappers (three must-fail witnesses: process(), Vec::resize, drop); one real-time section per harness covers getters, process_into_buffer (plain, masked, all-masked, after a ramped change, after set_chunk_size to a different size, after reset, error path with malformed input), both setters with EVERY f64, set_chunk_size with every usize; all seven types.",
   note="2 channels, chunk 2-4; allocations inside the real realfft are outside (stub allocates exactly where realfft's scratch-less process() would); log feature off",
   technique="bounded model checking of compiled code (Kani/CBMC SAT) with allocator stubs"),
 "C10": dict(cat="model_checking", ref="DESIGN.md sections 5 C10, 11",
   text="Instance A gets a dirtying history (ratio changes stepped/ramped/pending, set_chunk_size, failed call; FFT: 1-2 calls), reset(); then all getters and the following calls are compared bit-exactly with a fresh twin; constructor-vs-reset input need for EVERY constructor ratio in [0.5,2] (symbolic constructor).",
   note="quick-tier histories are concrete (symbolic ones thorough); 1 channel, 1-2 post-reset calls",
   technique="bounded model checking of compiled code (Kani/CBMC SAT), twin instances"),
 "C11": dict(cat="model_checking", ref="DESIGN.md sections 5 C11, 11",
   text="A 2-channel instance against a single-channel twin standing for one channel: symbolic mask (None / Some[m0,m1], all-false included, inactive channels passed empty slices), symbolic finite samples through copy-only kernels or distinct index lines: active channel bit-equal to the twin, masked outputs untouched (sentinel), counts and getters equal.",
   note="2 channels, 1 call (FixedInOut 2 calls), all seven types",
   technique="bounded model checking of compiled code (Kani/CBMC SAT), twin instances, symbolic mask and data"),
 "C12": dict(cat="model_checking", ref="DESIGN.md sections 5 C12, 11",
   text="Bit-precise: for concrete (original,max) pairs and EVERY f64 argument acceptance of both setters equals the documented predicate on all four asynchronous types, rejections carry the right payload and change nothing, relative == absolute(original*x) on getters; sync types never adjustable; set_chunk_size: every usize, twice in a row; cross-checked by a second encoding (mirsym, z3 FP) of the MIR of both setters with SYMBOLIC original/max (absolute: full predicate; relative: the outer acceptance predicate 1/max <= x <= max, inner call cut).",
   note="quick tier fixes (original,max) to awkward pairs for Kani; symbolic original/max in the Kani thorough tier and in the mirsym cross-check; the one-ulp sliver where the two clauses of the property disagree is excluded",
   technique="bounded model checking of compiled code (Kani/CBMC SAT, IEEE-754) + SMT (z3 FP) over symbolic execution of MIR"),
 "C13": dict(cat="model_checking", ref="DESIGN.md sections 5 C13, 11",
   text="Shapes are symbolic: number of input/output slices, every slice length, mask presence/length/content; result must be Ok iff the shape is valid, otherwise the error of SOME violated condition with its values (no order assumed), no panic, nothing written, getters unchanged, a following valid call equal to a twin's (also after history); constructors: every non-NaN f64 ratio/max, zero sample rates.",
   note="2 channels, chunk 1-3; FFT planner stubbed; untagged panics count as C13 violations",
   technique="bounded model checking of compiled code (Kani/CBMC SAT) over symbolic buffer shapes"),
 "C14": dict(cat="model_checking", ref="DESIGN.md sections 5 C14, 11",
   text="Index-signal observation: for every frame inside the stream |j - (tau_j*ratio + output_delay())| <= max(1,ratio)+1 with the ratio symbolic (every accepted f64) on FastFixedOut, and after a stepped change to 2.0 / 0.5 on FastFixedIn; SincFixedOut with the probe (window centre) - recorded finding F8 (reported sinc_len*ratio/2, measured ~0, confirmed natively). FFT types: mirsym decides on the MIR of the three output_delay() getters that the report is half the FFT output block for every value of the size fields (relative to the lemma that the overlap-add filter delays by half a block; counterexamples are replayed by a native impulse experiment on the real resamplers).",
   note="FFT types: only the report formula is solver-decided; the true group delay of the real FFT filter is a stated lemma (checked natively by kani/examples/mdelay.rs when a counterexample is replayed), not a solver verdict",
   technique="bounded model checking of compiled code (Kani/CBMC SAT) with index-signal observation + SMT (z3 bit-vectors) over symbolic execution of MIR for the FFT getters"),
 "C15": dict(cat="other", ref="DESIGN.md sections 5 C15, 11",
   text="mirsym executes the MIR of pack_sincs + get_sinc_interpolated(_unsafe) of the AVX/SSE f32/f64 kernels and of the scalar kernel on symbolic waves and tables (T := Real, intrinsics modelled lane-wise): result == plain dot product (z3+cvc5 unsat), logged read footprint == [index,index+len), no access outside the allocations; dispatch: make_interpolator and the three ::new pass identical argument tuples to make_sincs.",
   note="len in {8,16,24(,32,40)}, index in {0,(1,)5}, sub in {0,f-1}; NEON not compiled on this host; rounding differences are summation-order only (A-round)",
   technique="SMT (z3 + cvc5) over symbolic execution of rustc MIR with intrinsic models"),
 "C16": dict(cat="model_checking", ref="DESIGN.md sections 5 C16, 11",
   text="Twin instances: process() vs process_into_buffer (symbolic mask, empty slices for masked channels, truncation), process_partial_into_buffer(Some) with independent symbolic partial lengths per channel vs zero-padded input, None vs all-zero chunks twice, process_partial vs the buffer variant, and Box<dyn VecResampler> vs the concrete type for every forwarded method (setter arguments: every f64).",
   note="2 channels, chunk 2-6, FastFixedOut / SincFixedIn / FFT representatives",
   technique="bounded model checking of compiled code (Kani/CBMC SAT), twin instances"),
 "C17": dict(cat="model_checking", ref="DESIGN.md sections 5 C17, 11",
   text="f32/f64 twins with the same symbolic schedule (ratio: every accepted f64 on fixed-output, k/32 on fixed-input; ramp): all getters, setter results and returned counts equal; copy-only kernels: out32 == (out64 as f32) exactly; real constructors (table generation) size everything alike for both sample types; polynomial resamplers far into the buffer (ratio 0.0199, ~50 input frames per output frame, alternating 0/1 input, every interpolating degree of FastFixedIn and FastFixedOut): f32 output within 16 f32 epsilons of the peak of the f64 output.",
   note="numeric closeness is decided only on those concrete far-position runs (solver evaluates the f32/f64 arithmetic of the real code); a general error analysis of blending/sinc/FFT kernels is NOT claimed",
   technique="bounded model checking of compiled code (Kani/CBMC SAT), twin instances"),
}

NOT_APPLICABLE = [
 dict(property_id="C01", reason="analytic passband claim over sin/cos window tables and the real FFT; no solver here has a trig theory and Kani's sin/cos are unconstrained; the code the property depends on cannot be encoded within reach (DESIGN.md section 5 C01)"),
 dict(property_id="C02", reason="stopband attenuation of transcendental window spectra / the real FFT; same obstacle as C01 (DESIGN.md section 5 C02)"),
 dict(property_id="C18", reason="quantifier is thread schedules; Kani/CBMC-for-Rust is sequential and rejects concurrent code; no solver-based engine for Rust threads on this image (DESIGN.md section 5 C18)"),
]

def main():
    props = [json.loads(l)["id"] for l in open(os.path.join(V, "properties.jsonl"))]
    checks = []
    for p in props:
        if p in CLAIMED:
            c = CLAIMED[p]
            checks.append(dict(
                property_id=p,
                quick_cmd="./rv check %s --tier quick" % p,
                thorough_cmd="./rv check %s --tier thorough" % p,
                evidence_file="evidence/%s.json" % p,
                replay_cmd_template="./rv replay {path}",
                engine=c.get("engine", "mirsym" if p == "C15" else "kani-harness-crate"),
                level_claimed=dict(category=c["cat"], text=c["text"], design_ref=c["ref"]),
                level_note=c["note"],
                technique=c["technique"],
            ))
    na = list(NOT_APPLICABLE)
    for p in props:
        if p not in CLAIMED and p not in [x["property_id"] for x in na]:
            na.append(dict(property_id=p, reason="check not built yet in this revision of /verif (planned, see DESIGN.md section 5)"))
    m = dict(
        version=1,
        setup_cmd="./rv setup",
        hooks=dict(guard="none", enable="no source hooks: harnesses drive the public API of /repo as a path dependency; MIR dumps are taken from a scratch copy",
                   baseline_off_cmd="cd /repo && cargo test --workspace --no-fail-fast --offline",
                   source_commits=[], add_only=True),
        engines=[
            dict(name="kani-harness-crate", path="kani/", serves_properties=sorted(CLAIMED),
                 kind_free_text="Kani 0.68 / CBMC 6.11 proof harnesses over rubato's public API (path dependency on /repo), run and parsed by ./rv"),
            dict(name="mirsym", path="mirsym/", serves_properties=[p for p in ("C08", "C15", "C03", "C12", "C14") if p in CLAIMED],
                 kind_free_text="symbolic interpreter for rustc MIR dumps of /repo -> z3/cvc5 (Real and FP sorts)"),
        ],
        checks=checks,
        not_applicable=na,
        notes="Solver-based checking only. Fix commits in /repo: see known_findings.json ('fixed'). Scratch/build output under /var/tmp/rvh (RV_SCRATCH). `./rv warm --tier <t>` optionally pre-computes every harness of a tier in one worker pool (result cache keyed by the /repo tree and the harness module), after which the per-property commands are cache hits; the commands registered here do not depend on it.",
    )
    json.dump(m, open(os.path.join(V, "MANIFEST.json"), "w"), indent=1)

if __name__ == "__main__":
    main()
