#!/usr/bin/env python3
"""Regenerates MANIFEST.json from the table below (kept in one place so the
manifest is always valid)."""
import json, os
V = os.path.dirname(os.path.abspath(__file__))

CLAIMED = {
 "C03": dict(cat="model_checking", ref="DESIGN.md section 5 C03",
   text="Bounded model checking (Kani/CBMC) of process_into_buffer of the four asynchronous resamplers through the public API: concrete construction and warm-up history, then a ratio change with EVERY accepted f64 (quick: D_full for Nearest/Linear fixed-output, k/32 grid elsewhere) and ramp on/off, then a call with caller buffers of symbolic surplus length; every CBMC memory-safety, unsafe-precondition, overflow and panic check must hold and the call must return Ok. Sinc types run the real position logic against a probing interpolator that asserts the kernel contract.",
   note="bounds per harness in the evidence (chunk 2-3, max_rel 2-3, 1 channel, histories of warm-up + 1 symbolic step); histories and sizes beyond them, AVX/SSE kernel bodies (decided under C15) and the real FFT are outside; Kani lowering/CBMC/CaDiCaL trusted",
   technique="bounded model checking of compiled code (Kani/CBMC SAT, bit-precise floats), counterexamples replayed natively"),
 "C04": dict(cat="model_checking", ref="DESIGN.md section 5 C04",
   text="Same solver runs as C03 with the frame-count monitors: next<=max before every call, consumed == input_frames_next, written <= / == output_frames_next, returned count == frames actually written (sentinel oracle over the caller's backing array), nothing written beyond the advertised count.",
   note="as C03; sentinel oracle assumes the resampler never writes the sentinel value itself (index-signal input is non-negative)",
   technique="bounded model checking of compiled code (Kani/CBMC SAT) with sentinel-buffer oracle"),
 "C13": dict(cat="model_checking", ref="DESIGN.md section 5 C13",
   text="Shapes are symbolic: number of input/output slices, every slice length, mask presence/length/content; for all seven types the result must be Ok iff the shape is valid, otherwise the ResampleError of SOME violated condition with that condition's expected/actual/channel values (no check order assumed), no panic, nothing written, getters unchanged and a following valid call equal to a twin's. Constructors: every non-NaN f64 ratio/max (size-independent types), concrete offending values elsewhere.",
   note="2 channels, chunk 2-3, fresh state (+1 history point in thorough); FFT planner stubbed; untagged panics/bounds failures in these harnesses count as C13 violations",
   technique="bounded model checking of compiled code (Kani/CBMC SAT) over symbolic buffer shapes"),
 "C12": dict(cat="model_checking", ref="DESIGN.md section 5 C12",
   text="Bit-precise bounded model checking (Kani/CBMC) of the four asynchronous setters, the synchronous stubs and set_chunk_size through the public API: for concrete (original,max) pairs and EVERY f64 argument (NaN, infinities, subnormals, exact bounds and their neighbours) acceptance equals the documented predicate, rejections carry the right payload and change nothing; chunk sizes: every usize. Thorough adds symbolic original/max.",
   note="Kani MIR->goto lowering, CBMC float encoding, CaDiCaL; FFT planner stubbed for the sync types; quick tier fixes (original,max) to 7 awkward pairs; one-ulp sliver where the two clauses of the property disagree is excluded from the relative==absolute comparison",
   technique="bounded model checking of compiled code (Kani/CBMC SAT, bit-precise IEEE-754), counterexamples replayed natively"),
}

NOT_APPLICABLE = [
 dict(property_id="C01", reason="analytic passband claim over sin/cos window tables and the real FFT; no solver here has a trig theory and Kani's sin/cos are unconstrained; the code the property depends on cannot be encoded within reach (DESIGN.md section 5 C01)"),
 dict(property_id="C02", reason="stopband attenuation of transcendental window spectra / the real FFT; same obstacle as C01 (DESIGN.md section 5 C02)"),
 dict(property_id="C18", reason="quantifier is thread schedules; Kani/CBMC-for-Rust is sequential and rejects concurrent code; no solver-based engine for Rust threads on this image (DESIGN.md section 5 C18)"),
]

def main():
    props = [json.loads(l)["id"] for l in open(os.path.join(V, "properties.jsonl"))]
    checks = []
    for p in props:
        if p in CLAIMED:
            c = CLAIMED[p]
            checks.append(dict(
                property_id=p,
                quick_cmd="./rv check %s --tier quick" % p,
                thorough_cmd="./rv check %s --tier thorough" % p,
                evidence_file="evidence/%s.json" % p,
                replay_cmd_template="./rv replay {path}",
                engine=c.get("engine", "kani-harness-crate"),
                level_claimed=dict(category=c["cat"], text=c["text"], design_ref=c["ref"]),
                level_note=c["note"],
                technique=c["technique"],
            ))
    na = list(NOT_APPLICABLE)
    for p in props:
        if p not in CLAIMED and p not in [x["property_id"] for x in na]:
            na.append(dict(property_id=p, reason="check not built yet in this revision of /verif (planned, see DESIGN.md section 5)"))
    m = dict(
        version=1,
        setup_cmd="./rv setup",
        hooks=dict(guard="none", enable="no source hooks: harnesses drive the public API of /repo as a path dependency; MIR dumps are taken from a scratch copy",
                   baseline_off_cmd="cd /repo && cargo test --workspace --no-fail-fast --offline",
                   source_commits=[], add_only=True),
        engines=[
            dict(name="kani-harness-crate", path="kani/", serves_properties=sorted(CLAIMED),
                 kind_free_text="Kani 0.68 / CBMC 6.11 proof harnesses over rubato's public API (path dependency on /repo), run and parsed by ./rv"),
            dict(name="mirsym", path="mirsym/", serves_properties=[p for p in ("C08", "C15", "C03", "C12", "C14") if p in CLAIMED],
                 kind_free_text="symbolic interpreter for rustc MIR dumps of /repo -> z3/cvc5 (Real and FP sorts)"),
        ],
        checks=checks,
        not_applicable=na,
        notes="Solver-based checking only. Fix commits in /repo: see known_findings.json ('fixed'). Scratch/build output under /var/tmp/rvh (RV_SCRATCH).",
    )
    json.dump(m, open(os.path.join(V, "MANIFEST.json"), "w"), indent=1)

if __name__ == "__main__":
    main()
