"""Engine K driver: run one Kani harness, parse CBMC's per-check results,
extract counterexamples (concrete playback) and replay them natively."""
import hashlib, json, os, re, shutil, subprocess, time, signal

VERIF = os.path.dirname(os.path.dirname(os.path.abspath(__file__)))
REPO = os.environ.get("RV_REPO", "/repo")
KANI_CRATE = os.environ.get("RV_KANI_CRATE", os.path.join(VERIF, "kani"))
SCRATCH = os.environ.get("RV_SCRATCH", "/var/tmp/rvh")

TAG_RE = re.compile(r'^"*((?:C\d\d|WITNESS|REPLAY)\.[A-Za-z0-9_.]+)\[([A-Za-z0-9_]+)\]"*$')
TAG_NOREGION_RE = re.compile(r'^"*((?:WITNESS|REPLAY)\.[A-Za-z0-9_.]+)"*$')

KANI_FLAGS = ["-Z", "stubbing"]


def sha_tree(paths):
    h = hashlib.sha256()
    for root in paths:
        if os.path.isfile(root):
            files = [root]
        else:
            files = []
            for d, dn, fn in os.walk(root):
                dn[:] = sorted(x for x in dn if x not in ("target", ".git"))
                for f in sorted(fn):
                    files.append(os.path.join(d, f))
        for f in files:
            h.update(f.encode())
            try:
                with open(f, "rb") as fh:
                    h.update(fh.read())
            except OSError:
                h.update(b"<unreadable>")
    return h.hexdigest()


def repo_hash():
    return sha_tree([os.path.join(REPO, "src"), os.path.join(REPO, "Cargo.toml"),
                     os.path.join(REPO, "Cargo.lock")])


def crate_hash():
    return sha_tree([os.path.join(KANI_CRATE, "src"), os.path.join(KANI_CRATE, "Cargo.toml")])


def crate_hash_mod(mod):
    """Hash of what one harness module is compiled from: the shared files of the
    crate, the module itself and the harness modules it names (`crate::h::x`)."""
    src = os.path.join(KANI_CRATE, "src")
    mods, todo = set(), [mod]
    while todo:
        m = todo.pop()
        if m in mods:
            continue
        mods.add(m)
        try:
            txt = open(os.path.join(src, "h", m + ".rs")).read()
        except OSError:
            return crate_hash()
        for dep in re.findall(r"crate::h::(\w+)", txt):
            todo.append(dep)
    paths = [os.path.join(KANI_CRATE, "Cargo.toml")]
    for d, dn, fn in os.walk(src):
        dn[:] = sorted(dn)
        for f in sorted(fn):
            p = os.path.join(d, f)
            if os.path.basename(d) == "h" and f.endswith(".rs") and f[:-3] not in mods:
                continue
            paths.append(p)
    return sha_tree(paths)


def prepare_crate():
    """Copy /repo/Cargo.lock next to the harness crate (path dependency pins)."""
    src = os.path.join(REPO, "Cargo.lock")
    dst = os.path.join(KANI_CRATE, "Cargo.lock")
    # keep an existing lock if it already resolves (cargo may have added the
    # harness crate's own entries); refresh when /repo's lock changed
    stamp = os.path.join(SCRATCH, "lock.sha")
    os.makedirs(SCRATCH, exist_ok=True)
    cur = hashlib.sha256(open(src, "rb").read()).hexdigest()
    old = open(stamp).read() if os.path.exists(stamp) else ""
    if cur != old or not os.path.exists(dst):
        shutil.copyfile(src, dst)
        open(stamp, "w").write(cur)


def env_offline():
    e = dict(os.environ)
    e["CARGO_NET_OFFLINE"] = "true"
    e.pop("RUSTUP_TOOLCHAIN", None)
    return e


def parse_checks(out):
    """-> list of dict(id, cls, status, desc, loc)."""
    checks = []
    cur = None
    for line in out.splitlines():
        m = re.match(r"^Check (\d+): (.*)$", line)
        if m:
            cid = m.group(2).strip()
            mm = re.search(r"\.?([A-Za-z_\-]+)\.\d+$", cid)
            cur = dict(id=cid, cls=mm.group(1) if mm else "?", status=None, desc="", loc="")
            checks.append(cur)
            continue
        if cur is not None:
            s = line.strip()
            if s.startswith("- Status:"):
                cur["status"] = s.split(":", 1)[1].strip()
            elif s.startswith("- Description:"):
                d = s.split(":", 1)[1].strip()
                if d.startswith('"') and d.endswith('"'):
                    d = d[1:-1]
                cur["desc"] = d
            elif s.startswith("- Location:"):
                cur["loc"] = s.split(":", 1)[1].strip()
            elif s == "":
                cur = None
    return checks


def parse_playback(out):
    """-> list of dict(kind, desc, vals=[hex,...])."""
    tests = []
    blocks = out.split("Concrete playback unit test for")
    for b in blocks[1:]:
        m = re.search(r"Check for `(\w+)`: (.*)", b)
        if not m:
            continue
        kind = m.group(1)
        desc = m.group(2).strip()
        if desc.startswith('"') and desc.endswith('"'):
            desc = desc[1:-1]
        vals = []
        body = b.split("let concrete_vals", 1)[-1].split("];", 1)[0]
        for vm in re.finditer(r"vec!\[([0-9, ]*)\]", body.split("= vec![", 1)[-1]):
            nums = [int(x) for x in vm.group(1).replace(" ", "").split(",") if x != ""]
            vals.append(bytes(nums).hex())
        comments = re.findall(r"//\s*(.*)", body)
        tests.append(dict(kind=kind, desc=desc, vals=vals, shown=comments))
    return tests


def norm_desc(d):
    """Kani stringifies the message tokens: a `concat!("a", "b")` tag arrives as
    the token text; join its string pieces."""
    d = d.strip()
    if "concat" in d and "!" in d:
        parts = re.findall(r'\\?"((?:[^"\\])*)\\?"', d)
        if parts:
            return "".join(parts)
    return d.strip('"')


def classify(ch):
    """Return (category, tag, region). category in:
    tagged, nan (ignored), unwind, unsupported, safety, cover, other"""
    d = norm_desc(ch["desc"])
    m = TAG_RE.match(d)
    if m:
        return ("tagged", m.group(1), m.group(2))
    m = TAG_NOREGION_RE.match(d)
    if m:
        return ("tagged", m.group(1), "base")
    if ch["cls"] == "cover":
        return ("cover", d, None)
    if ch["cls"] == "NaN" or d.startswith("NaN on"):
        return ("nan", d, None)
    if "unwinding assertion" in d or ch["cls"] == "unwind":
        return ("unwind", d, None)
    if ch["cls"] == "unsupported_construct":
        return ("unsupported", d, None)
    return ("safety", d, None)


def run_harness(name, target_dir, unwind_override=None, cap_s=600, mem_gb=6, playback=False,
                extra_flags=()):
    """Run cargo kani on one harness. Returns dict with raw parse results."""
    cmd = ["cargo", "kani", "--target-dir", target_dir] + KANI_FLAGS + list(extra_flags)
    if playback:
        cmd += ["-Z", "concrete-playback", "--concrete-playback=print"]
    cmd += ["--harness", name, "--exact"]
    t0 = time.time()
    # limit address space of the whole process group; CBMC is the big one
    # mem_gb is the resident-memory allowance used for scheduling; the address-space limit is
    # looser (CBMC maps far more than it touches)
    pre = "ulimit -v %d; exec " % (int(mem_gb * 2.5) * 1024 * 1024)
    sh = pre + " ".join("'%s'" % c for c in cmd)
    p = subprocess.Popen(["bash", "-c", sh], cwd=KANI_CRATE, env=env_offline(),
                         stdout=subprocess.PIPE, stderr=subprocess.STDOUT,
                         start_new_session=True, text=True, errors="replace")
    timed_out = False
    try:
        out, _ = p.communicate(timeout=cap_s)
    except subprocess.TimeoutExpired:
        timed_out = True
        try:
            os.killpg(p.pid, signal.SIGKILL)
        except ProcessLookupError:
            pass
        out, _ = p.communicate()
    wall = time.time() - t0
    res = dict(name=name, wall_s=round(wall, 2), timed_out=timed_out, rc=p.returncode,
               playback=playback)
    res["checks"] = parse_checks(out)
    m = re.search(r"VERIFICATION:- (\w+)", out)
    res["verdict"] = m.group(1) if m else None
    m = re.search(r"Verification Time: ([0-9.]+)s", out)
    res["verif_time_s"] = float(m.group(1)) if m else None
    vc = re.findall(r"(\d+) variables, (\d+) clauses", out)
    res["sat_vars"] = int(vc[-1][0]) if vc else 0
    res["sat_clauses"] = int(vc[-1][1]) if vc else 0
    res["solver_s"] = round(sum(float(x) for x in re.findall(r"Runtime Solver: ([0-9.e+-]+)s", out)), 3)
    res["symex_s"] = round(sum(float(x) for x in re.findall(r"Runtime Symex: ([0-9.e+-]+)s", out)), 3)
    res["queries"] = len(re.findall(r"Runtime decision procedure", out))
    res["stubs_applied"] = sorted(set(re.findall(r"- Stub: (.*)", out)))
    # "No exit code?": CBMC was killed by a signal - under our `ulimit -v` that is memory exhaustion
    res["oom"] = bool(re.search(r"Status: ERROR|std::bad_alloc|Out of memory|out of memory|No exit code\?", out))
    res["build_failed"] = ("error: could not compile" in out) or ("error[E" in out)
    gm = re.search(r"Reading GOTO program from file (\S+)", out)
    res["goto_file"] = gm.group(1) if gm else None
    if playback:
        res["tests"] = parse_playback(out)
    if res["verdict"] is None or res["build_failed"]:
        res["tail"] = out[-3000:]
    return res


def parse_traces(out):
    """Raw CBMC traces (`--output-format old --cbmc-args --trace`):
    check id -> list of hex byte strings (little endian) in kani::any() order."""
    traces = {}
    cur = None
    for line in out.splitlines():
        m = re.match(r"^Trace for (.*):$", line)
        if m:
            cur = m.group(1).strip()
            traces[cur] = []
            continue
        if cur is None:
            continue
        m = re.match(r"^\s*goto_symex\$\$return_value\$\$\S*any_raw_internal\S*=.*\(([01 ]+)\)\s*$", line)
        if m:
            groups = m.group(1).split()
            by = [int(g, 2) for g in groups]   # most significant byte first
            traces[cur].append(bytes(reversed(by)).hex())
    return traces


def run_traces(name, target_dir, cap_s=1800, mem_gb=8):
    cmd = ["cargo", "kani", "--target-dir", target_dir] + KANI_FLAGS + [
        "-Z", "unstable-options", "--harness", name, "--exact", "--output-format", "old", "--cbmc-args", "--trace"]
    pre = "ulimit -v %d; exec " % (int(mem_gb * 2.5) * 1024 * 1024)
    sh = pre + " ".join("'%s'" % c for c in cmd)
    p = subprocess.Popen(["bash", "-c", sh], cwd=KANI_CRATE, env=env_offline(), stdout=subprocess.PIPE,
                         stderr=subprocess.STDOUT, start_new_session=True, text=True, errors="replace")
    try:
        out, _ = p.communicate(timeout=cap_s)
    except subprocess.TimeoutExpired:
        try:
            os.killpg(p.pid, signal.SIGKILL)
        except ProcessLookupError:
            pass
        out, _ = p.communicate()
    return parse_traces(out)


def list_rubato_functions(goto_file):
    if not goto_file or not os.path.exists(goto_file):
        return []
    try:
        out = subprocess.run(["goto-instrument", "--list-goto-functions", goto_file],
                             capture_output=True, text=True, timeout=60).stdout
    except Exception:
        return []
    names = set()
    for l in out.splitlines():
        if "rubato" in l and "rvh" not in l.split("rubato")[0][-5:]:
            l = l.strip()
            # demangled names are not available here; keep the readable part
            names.add(l[:160])
    return sorted(names)


_replay_built = {}


def build_replay(profile="dev"):
    """Build the native replay binary from the current /repo tree."""
    if profile in _replay_built:
        return _replay_built[profile]
    td = os.path.join(SCRATCH, "native")
    cmd = ["cargo", "build", "--offline", "--bin", "replay", "--target-dir", td]
    if profile == "release":
        cmd.append("--release")
    r = subprocess.run(cmd, cwd=KANI_CRATE, env=env_offline(), capture_output=True, text=True)
    if r.returncode != 0:
        raise RuntimeError("native replay build failed:\n" + r.stderr[-3000:])
    path = os.path.join(td, "debug" if profile == "dev" else "release", "replay")
    _replay_built[profile] = path
    return path


def replay_native(harness, vals, profile="dev"):
    """-> dict(fired=[tags], panic=str, signal=int|None, stderr_tail=str)."""
    exe = build_replay(profile)
    try:
        r = subprocess.run([exe, harness, ",".join(vals)], capture_output=True, text=True,
                           timeout=120, errors="replace")
    except subprocess.TimeoutExpired:
        return dict(fired=[], panic="replay-timeout", signal=None, stderr_tail="", values=[])
    fired, panic = [], "none"
    values = []
    for l in r.stdout.splitlines():
        if l.startswith("VALUE "):
            values.append(l[6:])
        m = re.match(r"^REPLAY fired=(.*?) panic=(.*)$", l)
        if m:
            fired = [x for x in m.group(1).split(",") if x]
            panic = m.group(2)
    sig = -r.returncode if r.returncode < 0 else None
    if sig is not None and panic == "none":
        panic = "signal %d" % sig
    return dict(fired=fired, panic=panic, signal=sig, stderr_tail=r.stderr[-600:], values=values,
                profile=profile)
