"""rv setup: check tools, prime the build caches (everything offline)."""
import os, subprocess, sys, shutil
from . import kani as K


def main():
    os.makedirs(K.SCRATCH, exist_ok=True)
    for tool in ("cargo", "cbmc", "goto-instrument", "z3", "cvc5"):
        if shutil.which(tool) is None:
            print("setup: missing tool", tool)
            return 2
    r = subprocess.run(["cargo", "kani", "--version"], capture_output=True, text=True, env=K.env_offline())
    print("setup:", r.stdout.strip().splitlines()[0] if r.stdout else r.stderr[-200:])
    K.prepare_crate()
    try:
        K.build_replay("dev")
        K.build_replay("release")
    except RuntimeError as e:
        print(e)
        return 2
    # registry and harness crate must agree
    from .registry import HARNESSES
    exe = K.build_replay("dev")
    names = set(subprocess.run([exe, "--list"], capture_output=True, text=True).stdout.split())
    reg = set(HARNESSES)
    if names != reg:
        print("setup: registry/crate mismatch; only in crate:", sorted(names - reg), "only in registry:", sorted(reg - names))
        return 2
    print("setup: ok (%d harnesses)" % len(reg))
    return 0
