"""Per-property dispatch: which engines decide a property, and how their
results are merged into one evidence record."""
import json, os, time, hashlib

VERIF = os.path.dirname(os.path.dirname(os.path.abspath(__file__)))


def engine_m(prop, tier):
    """-> (obligations, meta) from mirsym for this property (may be empty)."""
    import sys
    sys.path.insert(0, VERIF)
    from mirsym.mir import dump_mir, Program
    t0 = time.time()
    path, key = dump_mir(repo=os.environ.get("RV_REPO", "/repo"), scratch=os.path.join(os.environ.get("RV_SCRATCH", "/var/tmp/rvh"), "mir"))
    prog = Program(path)
    obs, models, extra = [], [], {}
    if prop == "C08":
        from mirsym import c08
        extra["translator_validation"] = c08.validate_translator(prog)
        obs = c08.check(prog)
        for o in obs:
            models += o.get("models_used", [])
    elif prop == "C15":
        from mirsym import c15
        obs, models = c15.check(prog, tier)
        from mirsym import c15d
        dobs, dmodels = c15d.check(prog)
        obs += dobs
        models += dmodels
    elif prop == "C03":
        from mirsym import nearest
        obs, models = nearest.check(prog, tier)
    elif prop == "C12":
        from mirsym import setter
        obs, models = setter.check(prog, tier)
    elif prop == "C14":
        from mirsym import delay
        obs, models, dmeta = delay.check(tier, repo=os.environ.get("RV_REPO", "/repo"))
        extra.update(dmeta)
    meta = dict(mir_dump=os.path.basename(path), mir_source_key=key, bodies_in_dump=len(prog.bodies),
                models_used=sorted(set(models)), wall_s=round(time.time() - t0, 2))
    meta.update(extra)
    return obs, meta


M_PROPS = {"C08", "C15", "C03", "C12", "C14"}   # extended as the other mirsym checks land
M_ONLY = {"C15"}


def dispatch(prop, tier, only, use_cache, engine_k):
    from rvlib.registry import HARNESSES
    t0 = time.time()
    has_k = any(prop in m["props"] for m in HARNESSES.values()) and prop not in M_ONLY
    ev, violations, machinery = None, [], []
    mres = {}
    mth = None
    if prop in M_PROPS and not only:
        import threading

        def _m():
            try:
                mres["obs"], mres["meta"] = engine_m(prop, tier)
            except Exception as e:  # machinery problem, never a pass
                import traceback
                mres["err"] = traceback.format_exc()[-1500:]
        mth = threading.Thread(target=_m, daemon=True)
        mth.start()
    if has_k:
        ev, violations, machinery = engine_k(prop, tier, only, use_cache)
    if mth is not None:
        mth.join()
        if "err" in mres:
            machinery.append("engine M failed: %s" % mres["err"])
            obs, meta = [], dict(error=mres["err"][-300:])
        else:
            obs, meta = mres["obs"], mres["meta"]
        notes = [o for o in obs if o.get("kind") == "note"]
        obs = [o for o in obs if o.get("kind") != "note"]
        n = len(obs)
        ok = sum(1 for o in obs if o["verdict"] == "holds")
        bad = [o for o in obs if o["verdict"] == "violated"]
        known = json.load(open(os.path.join(VERIF, "known_findings.json"))).get("findings", [])
        inc = [o for o in obs if o["verdict"] == "inconclusive"]
        for o in inc[:5]:
            machinery.append("engine M inconclusive: %s %s" % (o["id"], str(o.get("detail", ""))[:300]))
        os.makedirs(os.path.join(VERIF, "replays"), exist_ok=True)
        for o in bad:
            hid = hashlib.sha256(json.dumps(o, sort_keys=True, default=str).encode()).hexdigest()[:10]
            path = os.path.join(VERIF, "replays", "%s-mirsym-%s.json" % (prop, hid))
            json.dump(dict(property=prop, engine="mirsym", obligation=o), open(path, "w"), indent=1, default=str)
            conf = m_replay(prop, o)
            o["native_replay"] = conf
            kf = [k for k in known if k.get("status", "open") == "open" and k["property"] == prop
                  and o.get("region", "base") == k["region"] and o.get("region", "base") != "base"]
            if conf.get("confirmed") and kf:
                print("KNOWN-FINDING: property=%s %s [%s[%s] via mirsym]" % (prop, kf[0]["what"], o["id"], o.get("region")), flush=True)
                o["known_finding"] = kf[0].get("id", "")
            elif conf.get("confirmed"):
                violations.append((dict(tag=o["id"], region="base", harness="mirsym", how=conf.get("how", "")), path))
                print("VIOLATION property=%s replay=%s  (%s: %s)" % (prop, path, o["id"], conf.get("how", "")), flush=True)
            else:
                machinery.append("engine M counterexample for %s did not reproduce natively: %s" % (o["id"], conf.get("how", "")))
        mcov = dict(m_obligations=n, m_discharged=ok, m_violated=len(bad), m_inconclusive=len(inc),
                    m_notes=[{k: v for k, v in o.items() if k in ("id", "region", "verdict", "model", "detail")} for o in notes],
                    m_solver_time_s=round(sum(o.get("solver_s", 0) for o in obs), 3),
                    m_functions_encoded=sorted(set(f for o in obs for f in (o.get("functions") or ([o["function"]] if o.get("function") else [])))),
                    m_meta=meta,
                    m_samples=[{k: v for k, v in o.items() if k in ("id", "cfg", "function", "functions", "z3", "cvc5", "verdict", "cvc5_basis", "linearity")}
                               for o in obs[:8]])
        if ev is None:
            ev = dict(property_id=prop, tier=tier, seed=int(os.environ.get("VERIF_SEED", "0") or 0), level="other",
                      coverage=dict(
                          explanation="SMT-decided identities over symbolic execution of rustc MIR regenerated from /repo (mirsym): "
                                      "each obligation is the negated property asserted over symbolic inputs; unsat from z3 and cvc5 = holds for all values of the stated sort; "
                                      "concrete control parameters (lengths, indices) are enumerated and listed",
                          obligations=n, discharged=ok, evaluations=n, distinct_nontrivial=ok,
                          checker_cmd="z3 5.1 (python API) + cvc5 1.0 (--lang smt2) on SMT-LIB2 exported from the same terms",
                          trusted_base=["rustc nightly MIR dump (-Zmir-opt-level=0)", "mirsym parser/interpreter", "callee and intrinsic models listed in m_meta.models_used",
                                        "z3, cvc5", "real-number reading of generic T (assumption A-round bridges to floats)"],
                          samples=mcov["m_samples"]),
                      assumptions=["T := Real: float rounding is not modelled in these identities (A-round)",
                                   "models of std/core::arch callees as listed"],
                      wall_s=0, violations=0)
        ev["coverage"].update(mcov)
        if has_k:
            ev["coverage"]["obligations"] = ev["coverage"].get("obligations", 0) + n
            ev["coverage"]["discharged"] = ev["coverage"].get("discharged", 0) + ok
            ev["coverage"]["evaluations"] = ev["coverage"].get("evaluations", 0) + n
    ev["wall_s"] = round(time.time() - t0, 1)
    ev["violations"] = len(violations)
    return ev, violations, machinery


def m_replay(prop, o):
    """Replay an Engine-M counterexample against the native build."""
    from rvlib import kani as K
    import subprocess
    try:
        exe = K.build_replay("release")
    except Exception as e:
        return dict(confirmed=False, how="replay build failed: %r" % e)
    if prop == "C08":
        label = o["id"].split("C08.table.")[-1]
        r = subprocess.run([exe, "--m-c08", label], capture_output=True, text=True, timeout=120)
        bad = "MISMATCH" in r.stdout
        return dict(confirmed=bad, how=r.stdout.strip()[-300:])
    if prop == "C15":
        cfg = o.get("cfg", {})
        kern = o["id"].split(".")[-2] + "." + o["id"].split(".")[-1] if o["id"].count(".") >= 3 else o["id"].split(".")[-1]
        r = subprocess.run([exe, "--m-c15", o["id"], str(cfg.get("len", 8)), str(cfg.get("nbr_sincs", 1)),
                            str(cfg.get("index", 0)), str(cfg.get("subindex", 0)), str(cfg.get("wave_len", 16))],
                           capture_output=True, text=True, timeout=120)
        bad = "MISMATCH" in r.stdout or r.returncode < 0
        return dict(confirmed=bad, how=(r.stdout.strip()[-300:] or "signal %d" % -r.returncode))
    if prop == "C14" and "delay_report" in o["id"]:
        td = os.path.join(K.SCRATCH, "native")
        b = subprocess.run(["cargo", "build", "--offline", "--release", "--example", "mdelay", "--target-dir", td],
                           cwd=K.KANI_CRATE, env=K.env_offline(), capture_output=True, text=True)
        if b.returncode != 0:
            return dict(confirmed=False, how="mdelay build failed: " + b.stderr[-300:])
        r = subprocess.run([os.path.join(td, "release", "examples", "mdelay"), o["id"].split(".")[-1]], capture_output=True, text=True, timeout=300)
        lines = [l for l in r.stdout.strip().splitlines() if l]
        return dict(confirmed="MISMATCH" in r.stdout, how=" | ".join(lines[-5:])[-600:])
    if prop == "C12" and "model" in o and "relative_predicate" in o["id"]:
        m = o["model"]
        td = os.path.join(K.SCRATCH, "native")
        b = subprocess.run(["cargo", "build", "--offline", "--release", "--example", "mrel", "--target-dir", td],
                           cwd=K.KANI_CRATE, env=K.env_offline(), capture_output=True, text=True)
        if b.returncode != 0:
            return dict(confirmed=False, how="mrel build failed: " + b.stderr[-300:])
        r = subprocess.run([os.path.join(td, "release", "examples", "mrel"), o["id"].split(".")[-1], m["orig_bits"], m["max_bits"], m["r_bits"]],
                           capture_output=True, text=True, timeout=120)
        return dict(confirmed="MISMATCH" in r.stdout, how=r.stdout.strip()[-300:])
    if prop == "C12" and "model" in o:
        m = o["model"]
        r = subprocess.run([exe, "--m-c12", o["id"].split(".")[-1], m["orig_bits"], m["max_bits"], m["r_bits"]],
                           capture_output=True, text=True, timeout=120)
        return dict(confirmed="MISMATCH" in r.stdout, how=r.stdout.strip()[-300:])
    if prop == "C03" and o.get("region") == "oversampling_1":
        # the leaf deviation is reachable through the public API: the Kani harness of the same region, natively
        h = "c03_sfo_os1_cubic" if o["id"].endswith("_4") else "c03_sfo_os1_quadratic"
        r = K.replay_native(h, ["20", "00", "0000000000000000", "0000000000000000"], "dev")
        hit = any(t.startswith("C03.kernel_subindex") for t in r["fired"])
        return dict(confirmed=hit, how="native replay of %s: fired=%s" % (h, ",".join(r["fired"])))
    return dict(confirmed=False, how="no native replay for this obligation")
