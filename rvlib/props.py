"""Per-property dispatch: which engines decide a property."""


def dispatch(prop, tier, only, use_cache, engine_k):
    return engine_k(prop, tier, only, use_cache)
