"""Harness registry for Engine K: which harness serves which property, in which
tier, with what bounds. `untagged` names the property that owns untagged CBMC
safety checks (pointer dereference, unsafe preconditions, overflow, panics) of
that harness; default C03."""

FFT_STUBS = ["RealFftPlanner::new -> zeroed planner", "plan_fft_forward/inverse -> Arc<StubFft>",
             "rubato::sinc::make_sincs -> constant unit table"]


def H(mod, props, tier="quick", cap=420, sym="", bounds="", stubs=(), untagged="C03",
      witness=False, thorough_cap=3600, mem=6):
    return dict(mod=mod, props=list(props), tier=tier, cap=cap, sym=sym, bounds=bounds,
                stubs=list(stubs), untagged=untagged, witness=witness, thorough_cap=thorough_cap,
                mem=mem)


HARNESSES = {}

# ---------------------------------------------------------------- C12
_c12_abs = "r: every f64 (NaN, inf, subnormal, negative included); ramp: bool"
HARNESSES.update({
    "c12_abs_ffi_sym": H("c12", ["C12"], tier="thorough", cap=3000,
        sym="orig in [2^-10,2^10], max in [1,2^10] (constructor); " + _c12_abs,
        bounds="FastFixedIn<f64> Nearest chunk 2, 1 ch; no processing call"),
    "c12_abs_ffi32_sym": H("c12", ["C12"], tier="thorough", cap=3000,
        sym="orig, max symbolic as above; " + _c12_abs,
        bounds="FastFixedIn<f32> Cubic chunk 3, 2 ch; no processing call"),
    "c12_abs_sfi_sym": H("c12", ["C12"], tier="thorough", cap=3000,
        sym="orig, max symbolic as above; " + _c12_abs,
        bounds="SincFixedIn<f64>+Probe(2,1) Linear chunk 2; no processing call"),
    "c12_abs_ffo_a": H("c12", ["C12"], sym=_c12_abs,
        bounds="FastFixedOut<f64> orig=0.012400514220697175 max=63.14900589023214 (pair from the F1 counterexample)"),
    "c12_abs_ffo_b": H("c12", ["C12"], sym=_c12_abs,
        bounds="FastFixedOut<f32> orig=48000/44100 max=1.1"),
    "c12_abs_ffo_c": H("c12", ["C12"], sym=_c12_abs,
        bounds="FastFixedOut<f64> orig=1 max=1 (degenerate range)"),
    "c12_abs_sfo_a": H("c12", ["C12"], sym=_c12_abs,
        bounds="SincFixedOut<f64>+Probe(2,1) orig=0.1 max=10"),
    "c12_abs_sfo_b": H("c12", ["C12"], sym=_c12_abs,
        bounds="SincFixedOut<f32>+Probe(4,2) orig=3 max=49/3, 2 ch"),
    "c12_abs_ffi_a": H("c12", ["C12"], sym=_c12_abs,
        bounds="FastFixedIn<f64> orig=0.012400514220697175 max=63.14900589023214"),
    "c12_abs_sfi_a": H("c12", ["C12"], sym=_c12_abs,
        bounds="SincFixedIn<f64>+Probe(2,1) orig=44100/48000 max=1.3"),
    "c12_rel_ffi_sym": H("c12", ["C12"], tier="thorough", cap=3000,
        sym="orig, max symbolic; x: every f64; ramp", bounds="FastFixedIn<f64>; no processing call"),
    "c12_rel_sfi_sym": H("c12", ["C12"], tier="thorough", cap=3000,
        sym="orig, max symbolic; x: every f64; ramp", bounds="SincFixedIn<f64>+Probe(2,1)"),
    "c12_rel_ffi_a": H("c12", ["C12"], sym="x: every f64; ramp",
        bounds="FastFixedIn<f64> orig=0.012400514220697175 max=63.14900589023214"),
    "c12_rel_sfi_a": H("c12", ["C12"], sym="x: every f64; ramp",
        bounds="SincFixedIn<f32>+Probe(2,1) orig=1.7 max=3"),
    "c12_rel_as_abs_getters": H("c12", ["C12"], sym="x: every f64; ramp",
        bounds="FastFixedOut<f64> and SincFixedIn<f64>+Probe(2,1), orig 0.75 max 2; twins get set_resample_ratio(orig*x); all getters compared; no processing call"),
    "c12_rel_as_abs_ffi": H("c12", ["C12"], tier="thorough", sym="x: every f64; ramp",
        bounds="FastFixedIn<f64> orig 1.5 max 3 Nearest chunk 2; twin gets set_resample_ratio(orig*x); 1 call each, unwind 30"),
    "c12_rel_as_abs_ffo": H("c12", ["C12"], tier="thorough", sym="x: every f64; ramp",
        bounds="FastFixedOut<f64> orig 0.75 max 2 Nearest chunk 2; twin; 1 call each"),
    "c12_rel_as_abs_sfo": H("c12", ["C12"], tier="thorough", sym="x: every f64; ramp",
        bounds="SincFixedOut<f64>+Probe(2,1) orig 0.75 max 2 Nearest chunk 2; twin; 1 call each"),
    "c12_rejected_noop_ffo": H("c12", ["C12"], sym="r, x: every rejected f64; ramp",
        bounds="FastFixedOut<f64> Linear chunk 2; twin without the rejected calls; 1 call each"),
    "c12_sync": H("c12", ["C12"], sym="r: every f64; ramp; c: every usize",
        bounds="FftFixedIn/Out/InOut<f64> 2->3", stubs=FFT_STUBS),
    "c12_chunk_na_fast": H("c12", ["C12"], sym="c: every usize", bounds="FastFixedIn<f64>, FastFixedOut<f32>"),
    "c12_chunk_sfi": H("c12", ["C12"], sym="c: every usize",
        bounds="SincFixedIn<f64>+Probe(2,1) max chunk 4; 1 call after an accepted change"),
    "c12_chunk_sfo": H("c12", ["C12"], sym="c: every usize",
        bounds="SincFixedOut<f64>+Probe(2,1) max chunk 4; 1 call after an accepted change"),
    "c12_witness": H("c12", ["C12"], witness=True, tier="quick", cap=600,
        sym="as c12_abs_ffi_a", bounds="final check must FAIL (vacuity witness)"),
})
