"""Harness registry for Engine K: which harness serves which property, in which
tier, with what bounds. `untagged` names the property that owns untagged CBMC
safety checks (pointer dereference, unsafe preconditions, overflow, panics) of
that harness; default C03."""

FFT_STUBS = ["RealFftPlanner::new -> zeroed planner", "plan_fft_forward/inverse -> Arc<StubFft>",
             "rubato::sinc::make_sincs -> constant unit table"]


def H(mod, props, tier="quick", cap=420, sym="", bounds="", stubs=(), untagged="C03",
      witness=False, thorough_cap=None, mem=4, props_thorough=()):
    """props: properties whose quick AND thorough checks run this harness;
    props_thorough: properties that additionally run it in their thorough tier only
    (a harness whose scenario is owned by another property but whose monitors also
    carry tags of these)."""
    return dict(mod=mod, props=list(props), tier=tier, cap=cap, sym=sym, bounds=bounds,
                stubs=list(stubs), untagged=untagged, witness=witness, thorough_cap=thorough_cap,
                mem=mem, props_thorough=list(props_thorough), untagged_region="base")


HARNESSES = {}

# ---------------------------------------------------------------- C12
_c12_abs = "r: every f64 (NaN, inf, subnormal, negative included); ramp: bool"
HARNESSES.update({
    "c12_abs_ffi_sym": H("c12", ["C12"], tier="thorough", cap=3000,
        sym="orig in [2^-10,2^10], max in [1,2^10] (constructor); " + _c12_abs,
        bounds="FastFixedIn<f64> Nearest chunk 2, 1 ch; no processing call"),
    "c12_abs_ffi32_sym": H("c12", ["C12"], tier="thorough", cap=3000,
        sym="orig, max symbolic as above; " + _c12_abs,
        bounds="FastFixedIn<f32> Cubic chunk 3, 2 ch; no processing call"),
    "c12_abs_sfi_sym": H("c12", ["C12"], tier="thorough", cap=3000,
        sym="orig, max symbolic as above; " + _c12_abs,
        bounds="SincFixedIn<f64>+Probe(2,1) Linear chunk 2; no processing call"),
    "c12_abs_ffo_a": H("c12", ["C12"], sym=_c12_abs,
        bounds="FastFixedOut<f64> orig=0.012400514220697175 max=63.14900589023214 (pair from the F1 counterexample)"),
    "c12_abs_ffo_b": H("c12", ["C12"], sym=_c12_abs,
        bounds="FastFixedOut<f32> orig=48000/44100 max=1.1"),
    "c12_abs_ffo_c": H("c12", ["C12"], sym=_c12_abs,
        bounds="FastFixedOut<f64> orig=1 max=1 (degenerate range)"),
    "c12_abs_sfo_a": H("c12", ["C12"], sym=_c12_abs,
        bounds="SincFixedOut<f64>+Probe(2,1) orig=0.1 max=10"),
    "c12_abs_sfo_b": H("c12", ["C12"], sym=_c12_abs,
        bounds="SincFixedOut<f32>+Probe(4,2) orig=3 max=49/3, 2 ch"),
    "c12_abs_ffi_a": H("c12", ["C12"], sym=_c12_abs,
        bounds="FastFixedIn<f64> orig=0.012400514220697175 max=63.14900589023214"),
    "c12_abs_sfi_a": H("c12", ["C12"], sym=_c12_abs,
        bounds="SincFixedIn<f64>+Probe(2,1) orig=44100/48000 max=1.3"),
    "c12_rel_ffi_sym": H("c12", ["C12"], tier="thorough", cap=3000,
        sym="orig, max symbolic; x: every f64; ramp", bounds="FastFixedIn<f64>; no processing call"),
    "c12_rel_sfi_sym": H("c12", ["C12"], tier="thorough", cap=3000,
        sym="orig, max symbolic; x: every f64; ramp", bounds="SincFixedIn<f64>+Probe(2,1)"),
    "c12_rel_ffi_a": H("c12", ["C12"], sym="x: every f64; ramp",
        bounds="FastFixedIn<f64> orig=0.012400514220697175 max=63.14900589023214"),
    "c12_rel_sfi_a": H("c12", ["C12"], sym="x: every f64; ramp",
        bounds="SincFixedIn<f32>+Probe(2,1) orig=1.7 max=3"),
    "c12_rel_ffo_a": H("c12", ["C12"], sym="x: every f64; ramp", bounds="FastFixedOut<f64> orig=0.75 max=3"),
    "c12_rel_sfo_a": H("c12", ["C12"], sym="x: every f64; ramp", bounds="SincFixedOut<f64>+Probe(2,1) orig=1.25 max=1.5"),
    "c12_chunk_twice": H("c12", ["C12"], sym="c1, c2: every usize", bounds="SincFixedIn and SincFixedOut (+Probe(2,1)), construction chunk 5; two successive set_chunk_size calls"),
    "c12_rel_as_abs_getters": H("c12", ["C12"], sym="x: every f64; ramp",
        bounds="FastFixedOut<f64> and SincFixedIn<f64>+Probe(2,1), orig 0.75 max 2; twins get set_resample_ratio(orig*x); all getters compared; no processing call"),
    "c12_rel_as_abs_getters_moved": H("c12", ["C12"], sym="x: every f64; ramp",
        bounds="FastFixedIn<f64> and SincFixedOut<f64>+Probe(2,1), orig 0.75 max 2, current ratio first moved to 1.25 (absolute, stepped); twins get set_resample_ratio(orig*x); all getters compared; no processing call"),
    "c12_rel_as_abs_ffi_moved": H("c12", ["C12"], tier="thorough", sym="x: every f64; ramp",
        bounds="as c12_rel_as_abs_ffi with the current ratio first moved to 3.0; 1 call each"),
    "c12_rel_as_abs_ffo_moved": H("c12", ["C12"], tier="thorough", sym="x: every f64; ramp",
        bounds="as c12_rel_as_abs_ffo with the current ratio first moved to 1.25; 1 call each"),
    "c12_rel_as_abs_sfo_moved": H("c12", ["C12"], tier="thorough", sym="x: every f64; ramp",
        bounds="as c12_rel_as_abs_sfo with the current ratio first moved to 1.25; 1 call each"),
    "c12_rel_as_abs_sfi_moved": H("c12", ["C12"], tier="thorough", sym="x: every f64; ramp",
        bounds="SincFixedIn<f64>+Probe(2,1) orig 1.5 max 3 Nearest chunk 2, current ratio first moved to 3.0; twin gets set_resample_ratio(orig*x); 1 call each"),
    "c12_rel_as_abs_ffi": H("c12", ["C12"], tier="thorough", sym="x: every f64; ramp",
        bounds="FastFixedIn<f64> orig 1.5 max 3 Nearest chunk 2; twin gets set_resample_ratio(orig*x); 1 call each, unwind 30"),
    "c12_rel_as_abs_ffo": H("c12", ["C12"], tier="thorough", sym="x: every f64; ramp",
        bounds="FastFixedOut<f64> orig 0.75 max 2 Nearest chunk 2; twin; 1 call each"),
    "c12_rel_as_abs_sfo": H("c12", ["C12"], tier="thorough", sym="x: every f64; ramp",
        bounds="SincFixedOut<f64>+Probe(2,1) orig 0.75 max 2 Nearest chunk 2; twin; 1 call each"),
    "c12_rejected_noop_ffo": H("c12", ["C12"], sym="r, x: every rejected f64; ramp",
        bounds="FastFixedOut<f64> Linear chunk 2; twin without the rejected calls; 1 call each"),
    "c12_sync": H("c12", ["C12"], sym="r: every f64; ramp; c: every usize",
        bounds="FftFixedIn/Out/InOut<f64> 2->3", stubs=FFT_STUBS),
    "c12_chunk_na_fast": H("c12", ["C12"], sym="c: every usize", bounds="FastFixedIn<f64>, FastFixedOut<f32>"),
    "c12_chunk_sfi": H("c12", ["C12"], sym="c: every usize",
        bounds="SincFixedIn<f64>+Probe(2,1) max chunk 4; 1 call after an accepted change"),
    "c12_chunk_sfo": H("c12", ["C12"], sym="c: every usize",
        bounds="SincFixedOut<f64>+Probe(2,1) max chunk 4; 1 call after an accepted change"),
    "c12_witness": H("c12", ["C12"], witness=True, tier="quick", cap=600,
        sym="as c12_abs_ffi_a", bounds="final check must FAIL (vacuity witness)"),
})

# ---------------------------------------------------------------- C03 / C04: async_step family
_TYPES = {"ffi": "FastFixedIn", "ffo": "FastFixedOut", "sfi": "SincFixedIn+Probe", "sfo": "SincFixedOut+Probe"}
_STEP_ROWS = [('c03_ffi_nearest_full', 'ffi', 'f64', 'PolynomialDegree::Nearest', 2, 2.0, 20, '[(1.0, 4)]', 'full', 'quick'), ('c03_ffi_nearest_grid', 'ffi', 'f64', 'PolynomialDegree::Nearest', 2, 2.0, 20, '[(1.0, 4)]', 'grid', 'thorough'), ('c03_ffi_linear_full', 'ffi', 'f64', 'PolynomialDegree::Linear', 2, 2.0, 20, '[(0.5, 5)]', 'full', 'thorough'), ('c03_ffi_linear_grid', 'ffi', 'f64', 'PolynomialDegree::Linear', 2, 2.0, 20, '[(0.5, 5)]', 'grid', 'quick'), ('c03_ffi_cubic_full', 'ffi', 'f32', 'PolynomialDegree::Cubic', 2, 3.0, 22, '[(3.0, 4)]', 'full', 'thorough'), ('c03_ffi_cubic_grid', 'ffi', 'f32', 'PolynomialDegree::Cubic', 2, 3.0, 22, '[(3.0, 4)]', 'grid', 'quick'), ('c03_ffi_quintic_full', 'ffi', 'f32', 'PolynomialDegree::Quintic', 3, 2.0, 22, '[(0.5, 4)]', 'full', 'thorough'), ('c03_ffi_quintic_grid', 'ffi', 'f32', 'PolynomialDegree::Quintic', 3, 2.0, 22, '[(0.5, 4)]', 'grid', 'thorough'), ('c03_ffi_septic_full', 'ffi', 'f32', 'PolynomialDegree::Septic', 3, 2.0, 22, '[(1.0, 3)]', 'full', 'thorough'), ('c03_ffi_septic_grid', 'ffi', 'f32', 'PolynomialDegree::Septic', 3, 2.0, 22, '[(1.0, 3)]', 'grid', 'thorough'), ('c03_ffo_nearest_full', 'ffo', 'f64', 'PolynomialDegree::Nearest', 2, 2.0, 20, '[]', 'full', 'quick'), ('c03_ffo_nearest_grid', 'ffo', 'f64', 'PolynomialDegree::Nearest', 2, 2.0, 20, '[]', 'grid', 'thorough'), ('c03_ffo_linear_full', 'ffo', 'f64', 'PolynomialDegree::Linear', 3, 3.0, 24, '[(1.0 / 3.0, 2)]', 'full', 'quick'), ('c03_ffo_linear_grid', 'ffo', 'f64', 'PolynomialDegree::Linear', 3, 3.0, 24, '[(1.0 / 3.0, 2)]', 'grid', 'thorough'), ('c03_ffo_cubic_full', 'ffo', 'f32', 'PolynomialDegree::Cubic', 2, 3.0, 22, '[(3.0, 2)]', 'full', 'quick'), ('c03_ffo_cubic_grid', 'ffo', 'f32', 'PolynomialDegree::Cubic', 2, 3.0, 22, '[(3.0, 2)]', 'grid', 'thorough'), ('c03_ffo_quintic_full', 'ffo', 'f32', 'PolynomialDegree::Quintic', 2, 2.0, 20, '[(0.5, 1)]', 'full', 'thorough'), ('c03_ffo_quintic_grid', 'ffo', 'f32', 'PolynomialDegree::Quintic', 2, 2.0, 20, '[(0.5, 1)]', 'grid', 'quick'), ('c03_ffo_septic_full', 'ffo', 'f32', 'PolynomialDegree::Septic', 2, 2.0, 20, '[(1.0, 1)]', 'full', 'thorough'), ('c03_ffo_septic_grid', 'ffo', 'f32', 'PolynomialDegree::Septic', 2, 2.0, 20, '[(1.0, 1)]', 'grid', 'quick'), ('c03_sfi_nearest_full', 'sfi', 'f64', 'boxed64, SincInterpolationType::Nearest, 8, 1', 2, 2.0, 20, '[(1.0, 4)]', 'full', 'quick'), ('c03_sfi_nearest_grid', 'sfi', 'f64', 'boxed64, SincInterpolationType::Nearest, 8, 1', 2, 2.0, 20, '[(1.0, 4)]', 'grid', 'thorough'), ('c03_sfi_linear_full', 'sfi', 'f64', 'boxed64, SincInterpolationType::Linear, 8, 2', 2, 2.0, 20, '[(0.5, 5)]', 'full', 'thorough'), ('c03_sfi_linear_grid', 'sfi', 'f64', 'boxed64, SincInterpolationType::Linear, 8, 2', 2, 2.0, 20, '[(0.5, 5)]', 'grid', 'quick'), ('c03_sfi_cubic_full', 'sfi', 'f32', 'boxed32, SincInterpolationType::Cubic, 8, 4', 2, 2.0, 20, '[(2.0, 3)]', 'full', 'thorough'), ('c03_sfi_cubic_grid', 'sfi', 'f32', 'boxed32, SincInterpolationType::Cubic, 8, 4', 2, 2.0, 20, '[(2.0, 3)]', 'grid', 'quick'), ('c03_sfi_quadratic_full', 'sfi', 'f32', 'boxed32, SincInterpolationType::Quadratic, 8, 3', 2, 3.0, 22, '[(3.0, 4)]', 'full', 'thorough'), ('c03_sfi_quadratic_grid', 'sfi', 'f32', 'boxed32, SincInterpolationType::Quadratic, 8, 3', 2, 3.0, 22, '[(3.0, 4)]', 'grid', 'quick'), ('c03_sfo_nearest_full', 'sfo', 'f64', 'boxed64, SincInterpolationType::Nearest, 8, 1', 2, 2.0, 20, '[]', 'full', 'quick'), ('c03_sfo_nearest_grid', 'sfo', 'f64', 'boxed64, SincInterpolationType::Nearest, 8, 1', 2, 2.0, 20, '[]', 'grid', 'thorough'), ('c03_sfo_linear_full', 'sfo', 'f64', 'boxed64, SincInterpolationType::Linear, 8, 2', 3, 3.0, 24, '[(1.0 / 3.0, 2)]', 'full', 'thorough'), ('c03_sfo_linear_grid', 'sfo', 'f64', 'boxed64, SincInterpolationType::Linear, 8, 2', 3, 3.0, 24, '[(1.0 / 3.0, 2)]', 'grid', 'quick'), ('c03_sfo_cubic_full', 'sfo', 'f32', 'boxed32, SincInterpolationType::Cubic, 8, 4', 3, 2.0, 20, '[(1.0, 1)]', 'full', 'thorough'), ('c03_sfo_cubic_grid', 'sfo', 'f32', 'boxed32, SincInterpolationType::Cubic, 8, 4', 3, 2.0, 20, '[(1.0, 1)]', 'grid', 'quick'), ('c03_sfo_quadratic_full', 'sfo', 'f32', 'boxed32, SincInterpolationType::Quadratic, 8, 3', 2, 3.0, 22, '[(3.0, 2)]', 'full', 'thorough'), ('c03_sfo_quadratic_grid', 'sfo', 'f32', 'boxed32, SincInterpolationType::Quadratic, 8, 3', 2, 3.0, 22, '[(3.0, 2)]', 'grid', 'quick')]
for (hn, mac, T, args, chunk, maxrel, unw, warm, dom, tier) in _STEP_ROWS:
    HARNESSES[hn] = H("c03", ["C03", "C04"], tier=tier, cap=600, mem=6,
        sym=("new ratio: every f64 accepted by set_resample_ratio (D_full)" if dom == "full" else
             "new ratio: k/32, k any u8 accepted by the setter (D_grid)") + "; ramp: bool; caller buffer surplus lengths in [0,2]",
        bounds="%s<%s> %s, original ratio 1.0, chunk %d, max_rel %s, 1 channel; concrete warm-up (ratio, calls) %s; then 1 symbolic setter + 1 call; index-signal input, sentinel output; region [base]" % (_TYPES[mac], T, args, chunk, maxrel, warm))
HARNESSES["c03_witness"] = H("c03", ["C03", "C04"], witness=True, cap=600,
    sym="as c03_ffo_nearest_full", bounds="final check must FAIL (vacuity witness)")
HARNESSES["dbg_oob"] = H("dbg", ["C99"], tier="quick", cap=300, sym="debug", bounds="debug harness for the counterexample pipeline (not a property)")

# ---------------------------------------------------------------- C13: malformed arguments
_shape_sym = "shapes: number of input/output slices in [0,3], each slice length in [0, required+1], mask None or Some of length in [0,4] with symbolic entries"
def _c13(name, bounds, sym=_shape_sym, stubs=(), cap=480, tier="quick", witness=False):
    HARNESSES[name] = H("c13", ["C13"], tier=tier, cap=cap, sym=sym, bounds=bounds, stubs=stubs, untagged="C13", witness=witness, mem=6)
_c13("c13_shape_ffo", "FastFixedOut<f64> Nearest chunk 2, 2 channels, fresh; process_into_buffer; then a valid call compared with a twin")
_c13("c13_shape_ffi", "FastFixedIn<f32> Linear chunk 2, 2 channels, fresh; process_into_buffer; then a valid call compared with a twin")
_c13("c13_shape_sfo", "SincFixedOut<f64>+Probe(2,1) chunk 2, 2 channels; process_into_buffer; twin")
_c13("c13_shape_sfi", "SincFixedIn<f64>+Probe(2,1) chunk 2, 2 channels; process_into_buffer; twin")
_c13("c13_shape_ffo_after_call", "FastFixedOut<f64> after one valid call and a ramped ratio change to 0.75; process_into_buffer; twin with the same history", tier="thorough")
_c13("c13_shape_ffo_partial", "FastFixedOut<f64> 2 channels; process_partial_into_buffer(Some) with malformed channel counts/output lengths",
     sym="channel counts in [0,3], input lengths in [0,7], output lengths in [0,3]")
_c13("c13_shape_ftio", "FftFixedInOut<f64> 2->3 chunk 2, 2 channels; twin", stubs=FFT_STUBS, tier="thorough")
_c13("c13_shape_fti", "FftFixedIn<f64> 2->3 chunk 2, 2 channels; twin", stubs=FFT_STUBS, tier="thorough")
_c13("c13_shape_fto", "FftFixedOut<f64> 2->3 chunk 3, 2 channels; twin", stubs=FFT_STUBS, tier="thorough")
_c13("c13_process_mask", "FastFixedOut<f64> 2 channels; process() with a mask of symbolic length", sym="mask length in [0,4], entries symbolic")
_c13("c13_ctor_fast", "FastFixedIn::new", sym="resample_ratio, max_resample_ratio_relative: every non-NaN f64")
_c13("c13_ctor_sinc", "SincFixedIn::new_with_interpolator (Probe)", sym="resample_ratio, max_resample_ratio_relative: every non-NaN f64")
_c13("c13_ctor_out_concrete", "FastFixedOut::new, SincFixedOut::new_with_interpolator with 6 concrete offending (ratio,max) pairs", sym="selector u8")
_c13("c13_ctor_fft", "FftFixedIn/Out/InOut::new with at least one zero sample rate", sym="which rate is zero; the other in [0,3]", stubs=FFT_STUBS)
_c13("c13_witness", "final checks must FAIL (vacuity witness)", witness=True)
_c13("c13_shape_ftio_lite", "FftFixedInOut<f64> 2->3 chunk 2, 2 channels; result classification, writes nothing, getters unchanged (no follow-up call)", stubs=FFT_STUBS)
_c13("c13_shape_fti_lite", "FftFixedIn<f64> 2->3 chunk 2, 2 channels; as above", stubs=FFT_STUBS)
_c13("c13_shape_fto_lite", "FftFixedOut<f64> 2->3 chunk 3, 2 channels; as above", stubs=FFT_STUBS)

# ---------------------------------------------------------------- C09: no heap traffic
ALLOC_STUBS = ["std::alloc::{alloc, alloc_zeroed, dealloc, realloc} and the private alloc::alloc::{realloc_nonnull, dealloc_nonnull} (what Vec growth and drops go through in this std) -> asserting wrappers forwarding to __rust_alloc*"]
_c09_a = ("none: concrete history (heap traffic depends on control flow, not on values)",
          "one real-time section: all getters, call, set_resample_ratio_relative(0.75, ramp), masked call [true,false], set_chunk_size(2), all-masked call, reset, call, getters")
_c09_b = ("set_resample_ratio argument and set_resample_ratio_relative argument: every f64 (NaN/inf, accepted or rejected); ramp; set_chunk_size: every usize; mask entry; first channel length in [0, max] (error path and success path)",
          "fresh instance; one real-time section: both setters, set_chunk_size, one call, getters")
def _c09(name, typ, part, stubs=(), cap=720, witness=False):
    sym, sec = (_c09_a if part == "a" else _c09_b)
    HARNESSES[name] = H("c09", ["C09"], cap=cap, sym=sym, bounds=typ + "; " + sec,
                        stubs=ALLOC_STUBS + list(stubs), untagged="C09", witness=witness, mem=6)
for nm, typ, st in (("ffo", "FastFixedOut<f64> Linear chunk 2, 2 ch, max_rel 2", ()),
                    ("ffi", "FastFixedIn<f32> Nearest, 2 ch, max_rel 2 (part a: chunk 10 so that the frame loop runs inside the section; part b: chunk 2)", ()),
                    ("sfo", "SincFixedOut<f64>+Probe(2,2) Linear max chunk 3 (set_chunk_size(2) in the history), 2 ch", ()),
                    ("sfi", "SincFixedIn<f32>+Probe(2,2) Cubic max chunk 3 (set_chunk_size(2) in the history), 2 ch", ()),
                    ("ftio", "FftFixedInOut<f64> 2->3 chunk 2, 2 ch", FFT_STUBS),
                    ("fti", "FftFixedIn<f64> 2->3 chunk 3, 2 ch", FFT_STUBS),
                    ("fto", "FftFixedOut<f32> 2->3 chunk 4, 2 ch", FFT_STUBS)):
    _c09("c09_%s_a" % nm, typ, "a", st)
    _c09("c09_%s_b" % nm, typ, "b", st)
HARNESSES["c09_sfo_real_kernel"] = H("c09", ["C09"], cap=900, tier="thorough", mem=10, untagged="C09",
    sym="none (concrete); table values arbitrary (Kani sin/cos)",
    bounds="SincFixedOut<f64> built by the real new(): sinc_len 8, oversampling 2, Hann, scalar kernel; two calls (one masked)",
    stubs=ALLOC_STUBS + ["CpuFeature::is_detected -> false"])
HARNESSES["c09_witness"] = H("c09", ["C09"], witness=True, cap=300, untagged="C09", sym="none",
    bounds="process() inside the section must trip the monitor (vacuity witness)", stubs=ALLOC_STUBS)
HARNESSES["c09_realloc_witness"] = H("c09", ["C09"], witness=True, cap=300, untagged="C09", sym="none",
    bounds="Vec::resize beyond the capacity inside the section must trip the reallocation monitor (vacuity witness)", stubs=ALLOC_STUBS)
HARNESSES["c09_dealloc_witness"] = H("c09", ["C09"], witness=True, cap=300, untagged="C09", sym="none",
    bounds="dropping a Vec inside the section must trip the deallocation monitor (vacuity witness)", stubs=ALLOC_STUBS)

# ---------------------------------------------------------------- C10: reset == fresh (also C03: untagged checks after reset)
_c10_sym_thorough = "pre-reset history: ratio change with every accepted f64 (D_full; FixedIn: k/32 grid), ramp bool, mask entry, optional pending relative ramp, a failed call; post-reset calls compared with a fresh twin"
def _c10(name, bounds, sym, stubs=(), cap=600, witness=False, tier="quick"):
    HARNESSES[name] = H("c10", ["C10"], cap=cap, sym=sym, bounds=bounds, stubs=stubs, untagged="C10", witness=witness, mem=(7 if stubs else 4), tier=tier, props_thorough=["C03"])
_conc = "none in the history (concrete: constant-folds); the solver decides every memory-safety/overflow check on the path and the equalities against the fresh twin"
_c10("c10_ffo_lowered", "FastFixedOut<f64> Linear chunk 2, 1 ch, max_rel 2; history: ratio 0.5 stepped, 1 masked call; reset; getters + 3 calls vs fresh twin", _conc)
_c10("c10_ffo_ramp_pending", "FastFixedOut<f32> Cubic chunk 2, 1 ch; history: ratio 1.75 ramped, 2 calls, pending relative ramp 1.25, failed call; reset; 3 calls vs twin", _conc)
_c10("c10_ffi_lowered", "FastFixedIn<f64> Linear chunk 3, 1 ch; history: ratio 0.5 stepped, 4 calls; reset; 5 calls vs twin", _conc)
_c10("c10_ffi_ramp_pending", "FastFixedIn<f32> Septic chunk 3, 1 ch; history: ratio 2.0 ramped, 3 calls, pending ramp, failed call; reset; 5 calls vs twin", _conc)
_c10("c10_sfo_lowered_chunk", "SincFixedOut<f64>+SumProbe(4,2) Linear max chunk 3, 1 ch; history: set_chunk_size(1), ratio 0.5 stepped, 2 calls; reset; 3 calls vs twin", _conc)
_c10("c10_sfo_ramp_pending", "SincFixedOut<f32>+SumProbe(4,2) Cubic chunk 3, 1 ch; history: ratio 1.5 ramped, 1 call, pending ramp, failed call; reset; 3 calls", _conc)
_c10("c10_sfi_lowered_chunk", "SincFixedIn<f64>+SumProbe(4,2) Linear max chunk 3, 1 ch; history: set_chunk_size(2), ratio 0.5, 4 calls; reset; 5 calls vs twin", _conc)
_c10("c10_sfi_ramp_pending", "SincFixedIn<f32>+SumProbe(4,3) Quadratic chunk 3, 1 ch; history: ratio 2.0 ramped, 3 calls, pending ramp, failed call; reset; 5 calls", _conc)
_fft_sym = "mask entry of the pre-reset calls; number of pre-reset calls concrete per harness"
_c10("c10_sfi_full_then_lowered", "SincFixedIn<f64>+SumProbe(4,2) Linear max chunk 8, 1 ch; history: full-size call with signal, set_chunk_size(3), call; reset; 1 call vs fresh twin (window-sum kernel: every history sample is visible)", _conc, cap=900)
_c10("c10_fto_masked_then_reset", "FftFixedOut<f64> 2->3 chunk 3, 2 ch; history: unmasked call with signal, call with mask [true,false]; reset; unmasked call on both channels vs fresh twin", "none (concrete)", stubs=FFT_STUBS, cap=900)
_c10("c10_fto_1", "FftFixedOut<f64> 2->3 chunk 4, sub_chunks 2 (block 2/3: one call changes the next input need), 1 ch; 1 call, reset, 1 call vs fresh twin", _fft_sym, stubs=FFT_STUBS)
_c10("c10_fto_2", "FftFixedOut<f64> 2->3 chunk 4, 1 ch; 2 calls, reset, 3 calls vs fresh twin", _fft_sym, stubs=FFT_STUBS)
_c10("c10_fto_mult_2", "FftFixedOut<f64> 2->3 chunk 6 = 2 blocks, sub_chunks 2, 1 ch; 2 calls, reset, 3 calls vs fresh twin", _fft_sym, stubs=FFT_STUBS)
_c10("c10_fti_1", "FftFixedIn<f64> 2->3 chunk 3 (block 4/6), 1 ch; 1 call, reset, 3 calls", _fft_sym, stubs=FFT_STUBS)
_c10("c10_fti_2", "FftFixedIn<f64> 2->3 chunk 3, 1 ch; 2 calls, reset, 3 calls", _fft_sym, stubs=FFT_STUBS)
_c10("c10_ftio_1", "FftFixedInOut<f64> 2->3 chunk 2, 1 ch; 1 call, reset, 2 calls", _fft_sym, stubs=FFT_STUBS)
_c10("c10_ffo_sym", "FastFixedOut<f64> Linear chunk 2, 2 ch; symbolic history; reset; 2 calls vs twin", _c10_sym_thorough, tier="thorough", cap=3600)
_c10("c10_ffi_sym", "FastFixedIn<f64> Linear chunk 3, 2 ch; symbolic history; reset; 3 calls vs twin", _c10_sym_thorough, tier="thorough", cap=3600)
_c10("c10_sfo_sym", "SincFixedOut<f64>+SumProbe(4,2) chunk 3, 2 ch; set_chunk_size(1), symbolic history; reset; 2 calls vs twin", _c10_sym_thorough, tier="thorough", cap=3600)
_c10("c10_witness", "no reset before the comparison: must FAIL (vacuity witness)", "none", witness=True)

# ---------------------------------------------------------------- C16: wrappers == core call
def _c16(name, bounds, sym, stubs=(), cap=600, witness=False, tier="quick", mod="c16"):
    HARNESSES[name] = H(mod, ["C16"], cap=cap, sym=sym, bounds=bounds, stubs=stubs, untagged="C16", witness=witness, mem=(7 if stubs else 4), tier=tier)
_pv = "mask: None or Some([m0,m1]) symbolic; inactive channels are passed empty input slices"
_c16("c16_process_ffo", "FastFixedOut<f64> Nearest chunk 2, 2 ch, fresh; process() vs process_into_buffer() on a twin, index-signal input", _pv, cap=900)
_c16("c16_process_sfi", "SincFixedIn<f64>+Probe(2,1) Nearest chunk 6, 2 ch (estimate larger than written count: truncation)", _pv, tier="thorough")
_c16("c16_process_ftio", "FftFixedInOut<f64> 2->3 chunk 2, 2 ch", _pv, stubs=FFT_STUBS, tier="thorough")
_pp = "partial lengths l0 in [1,next), l1 in [0,next) independent; mask None/Some([true,m1]); masked channel may be empty"
_c16("c16_process_ffi_ramp_pending", "FastFixedIn<f64> Nearest chunk 10 (frames are produced on the first call), 1 ch, ramped change pending (to 0.5 or to 2.0): process() vs process_into_buffer with an output_frames_next()-sized buffer on a twin: both Ok, same count and values", "direction of the pending ramp")
_c16("c16_partial_ffo", "FastFixedOut<f64> Nearest chunk 6 (the last frames of the first call read the current input), 1 ch; process_partial_into_buffer(Some(x[..l])) vs zero-padded process_into_buffer on a twin", "partial length l in [1, next)")
_c16("c16_partial_sfi", "SincFixedIn<f64>+Probe(2,1) chunk 6, 1 ch; as above", "partial length l in [1, next)")
_c16("c16_partial_ffo_2ch", "FastFixedOut<f64> chunk 6, 2 ch: concrete partial lengths 5 and 2 (per-channel padding), mask [true,true]; vs zero-padded twin", "none (concrete lengths)")
_c16("c16_partial_ffo_2ch_masked_empty", "FastFixedOut<f64> chunk 6, 2 ch: channel 0 partial (5 frames), channel 1 masked and passed EMPTY; vs zero-padded twin", "none (concrete)")
_c16("c16_partial_ffo_2ch_masked_first", "FastFixedOut<f64> chunk 6, 2 ch: channel 0 masked and passed EMPTY, channel 1 partial (5 frames); vs zero-padded twin", "none (concrete)")
_c16("c16_partial_ffo_2ch_sym", "FastFixedOut<f64> Linear chunk 2, 2 ch; symbolic independent partial lengths and mask", _pp, tier="thorough")
_c16("c16_partial_sfi_2ch_sym", "SincFixedIn<f64>+Probe(2,1) chunk 6, 2 ch; symbolic independent partial lengths and mask", _pp, tier="thorough")
_c16("c16_partial_fto_2ch_sym", "FftFixedOut<f64> 2->3 chunk 3, 2 ch; symbolic partial lengths and mask", _pp, stubs=FFT_STUBS, tier="thorough")
_c16("c16_none_ffo", "FastFixedOut<f64> Linear chunk 2, 1 ch; one call of audio, then process_partial_into_buffer(None) x2 vs all-zero chunks on a twin", "none (concrete)")
_c16("c16_none_fti", "FftFixedIn<f64> 2->3 chunk 3, 1 ch; one call, then None x2 vs zero chunks", "none (concrete)", stubs=FFT_STUBS)
_c16("c16_partial_alloc_ffo", "FastFixedOut<f64> chunk 2, 1 ch; process_partial(Some|None) vs process_partial_into_buffer on a twin", "Some/None; partial length in [1,5]")
_c16("c16_vec_setters_getters", "Box<dyn VecResampler<f64>> over FastFixedOut (orig 0.75, max 2) vs the concrete type through Resampler::", "setter argument: every f64; ramp; absolute/relative", mod="c16v")
for _n, _what in (("into", "process_into_buffer"), ("process", "process"), ("partial", "process_partial_into_buffer(Some)"), ("process_partial", "process_partial(None)")):
    _c16("c16_vec_" + _n, "Box<dyn VecResampler<f64>> over FastFixedOut chunk 2: %s through the object vs the concrete type" % _what, "none (concrete)", mod="c16v", cap=900)
_c16("c16_witness", "twins of different ratio: must FAIL (vacuity witness)", "none", witness=True)

# ---------------------------------------------------------------- C11: channel independence and masks
def _c11(name, bounds, sym, stubs=(), cap=900, witness=False, tier="quick"):
    HARNESSES[name] = H("c11", ["C11"], cap=cap, sym=sym, bounds=bounds, stubs=stubs, untagged="C11", witness=witness, mem=(7 if stubs else 4), tier=tier)
_m = "mask None or Some([m0,m1]) symbolic (all-false included; inactive channels passed EMPTY slices)"
_c11("c11_ffo_ch1", "FastFixedOut<f64> Nearest chunk 6: 2-channel instance vs a 1-channel twin standing for channel 1, 1 call, distinct index lines", _m)
_c11("c11_ffo_ch0_linear", "FastFixedOut<f32> Linear chunk 5 ratio 0.75: 2-channel vs 1-channel twin for channel 0, 1 call", _m)
_c11("c11_sfo_ch1_sym", "SincFixedOut<f64>+Probe(2,1) Nearest chunk 2: 2-channel vs twin for channel 1, 1 call", _m + "; sample data: every finite f32 value per sample (copy-only kernel)")
_c11("c11_sfo_ch0_sym", "SincFixedOut<f64>+Probe(2,1) Nearest chunk 2: 2-channel vs twin for channel 0, 1 call", _m + "; symbolic finite samples")
_c11("c11_sfi_ch1_sym", "SincFixedIn<f64>+Probe(2,1) Nearest chunk 5: 2-channel vs twin for channel 1, 1 call", _m + "; symbolic finite samples")
_c11("c11_ffi_ch1_line", "FastFixedIn<f64> Nearest chunk 12: 2-channel vs twin for channel 1, 1 call, index lines", _m)
_c11("c11_ftio_ch1", "FftFixedInOut<f64> 2->3 chunk 2: 2-channel vs twin for channel 1, 2 calls (per-channel overlap buffers)", _m + "; symbolic finite samples in call 1", stubs=FFT_STUBS)
_c11("c11_fto_ch1", "FftFixedOut<f64> 2->3 chunk 4: 2-channel vs twin for channel 1, 1 call", _m, stubs=FFT_STUBS)
_c11("c11_fti_ch0", "FftFixedIn<f64> 2->3 chunk 4: 2-channel vs twin for channel 0, 1 call", _m, stubs=FFT_STUBS)
_c11("c11_witness", "twin fed the other channel's data: must FAIL (vacuity witness)", "none", witness=True)
_c11("c11_ffi_masked_first", "FastFixedIn<f64> Nearest chunk 10, 2 ch, mask [false,true] (first channel empty) vs 1-channel twin, 1 call", "none (concrete mask; symbolic-mask variant c11_ffi_ch1_line is thorough)")
_c11("c11_sfi_chunk_change_2ch", "SincFixedIn<f64>+Probe(2,1) Nearest chunk 5, 2 ch with different signals vs 1-channel twin: call, set_chunk_size(3), call", "none (concrete)", cap=900)
_c11("c11_sfi_masked_first", "SincFixedIn<f64>+Probe(2,1) Nearest chunk 5, 2 ch, mask [false,true] vs 1-channel twin, 1 call", "none (concrete mask; symbolic-mask variant c11_sfi_ch1_sym is thorough)")
HARNESSES["c11_ffi_ch1_line"]["tier"] = "thorough"
HARNESSES["c11_sfi_ch1_sym"]["tier"] = "thorough"

# ---------------------------------------------------------------- C17: f32 / f64 twins
def _c17(name, bounds, sym, stubs=(), cap=600, witness=False, tier="quick"):
    HARNESSES[name] = H("c17", ["C17"], cap=cap, sym=sym, bounds=bounds, stubs=stubs, untagged="C17", witness=witness, mem=(7 if stubs else 4), tier=tier)
_g = "setter argument: every f64; ramp; absolute/relative"
_c17("c17_ffo_getters", "FastFixedOut<f32> vs <f64> (orig 0.75, max 2, Cubic, chunk 3): all getters before and after a ratio change, setter verdicts equal; no processing call", _g)
_c17("c17_sfo_getters", "SincFixedOut<f32> vs <f64> +Probe(8,2) (orig 1.25, max 2): as above", _g)
_c17("c17_fixedin_getters", "FastFixedIn and SincFixedIn, f32 vs f64: as above", _g)
_c17("c17_ffo_call", "FastFixedOut<f32> vs <f64> Nearest chunk 2: ramped change to 0.75, 1 call: counts equal, out32 == (out64 as f32), getters equal", "none (concrete ratio; symbolic step: c17_ffo_step, thorough)")
_c17("c17_sfo_call", "SincFixedOut<f32> vs <f64> +Probe(8,1) Nearest chunk 2: ramped change to 1.5, 1 call", "none (concrete ratio)")
_c17("c17_ffi_call", "FastFixedIn<f32> vs <f64> Nearest chunk 10: ramped change to 0.75, 1 call", "none (concrete ratio)")
_c17("c17_real_new_8", "SincFixedOut::<f32>::new vs ::<f64>::new (real table generation, scalar kernel), sinc_len 8: every getter equal", "none", stubs=["CpuFeature::is_detected -> false"])
_c17("c17_ctor_sizes_8", "SincFixedOut::<f32>::new vs ::<f64>::new through make_interpolator with the table CONTENTS stubbed (sizes real), sinc_len 8, oversampling 2: every getter equal", "none", stubs=["CpuFeature::is_detected -> false", "make_sincs -> unit table"], cap=300)
_c17("c17_ctor_sizes_20", "SincFixedIn::<f32>::new vs ::<f64>::new, table contents stubbed, sinc_len 20 (rounded up to 24 by make_interpolator), oversampling 1: every getter equal", "none", stubs=["CpuFeature::is_detected -> false", "make_sincs -> unit table"], cap=300)
_c17("c17_ffo_linear_far_position", "FastFixedOut chunk 2 Linear, f32 vs f64, max_rel 64: stepped change to ratio 0.0199 (each frame ~50 input frames further), alternating 0/1 input, 2 calls: outputs within 16 f32 epsilons of the peak; counts and getters equal", "none (concrete; the solver evaluates the f32 and f64 arithmetic of the real code)", cap=600)
_c17("c17_ffo_cubic_far_position", "FastFixedOut chunk 2 Cubic, f32 vs f64, max_rel 64: stepped change to ratio 0.0199 (each frame ~50 input frames further), alternating 0/1 input, 2 calls: outputs within 16 f32 epsilons of the peak; counts and getters equal", "none (concrete; the solver evaluates the f32 and f64 arithmetic of the real code)", cap=600)
_c17("c17_ffo_quintic_far_position", "FastFixedOut chunk 2 Quintic, f32 vs f64, max_rel 64: stepped change to ratio 0.0199 (each frame ~50 input frames further), alternating 0/1 input, 2 calls: outputs within 16 f32 epsilons of the peak; counts and getters equal", "none (concrete; the solver evaluates the f32 and f64 arithmetic of the real code)", cap=600)
_c17("c17_ffo_septic_far_position", "FastFixedOut chunk 2 Septic, f32 vs f64, max_rel 64: stepped change to ratio 0.0199 (each frame ~50 input frames further), alternating 0/1 input, 2 calls: outputs within 16 f32 epsilons of the peak; counts and getters equal", "none (concrete; the solver evaluates the f32 and f64 arithmetic of the real code)", cap=600)
_c17("c17_ffi_linear_far_position", "FastFixedIn chunk 120 Linear, f32 vs f64, max_rel 64: stepped change to ratio 0.0199 (each frame ~50 input frames further), alternating 0/1 input, 2 calls: outputs within 16 f32 epsilons of the peak; counts and getters equal", "none (concrete; the solver evaluates the f32 and f64 arithmetic of the real code)", cap=600)
_c17("c17_ffi_cubic_far_position", "FastFixedIn chunk 120 Cubic, f32 vs f64, max_rel 64: stepped change to ratio 0.0199 (each frame ~50 input frames further), alternating 0/1 input, 2 calls: outputs within 16 f32 epsilons of the peak; counts and getters equal", "none (concrete; the solver evaluates the f32 and f64 arithmetic of the real code)", cap=600)
_c17("c17_ffi_quintic_far_position", "FastFixedIn chunk 120 Quintic, f32 vs f64, max_rel 64: stepped change to ratio 0.0199 (each frame ~50 input frames further), alternating 0/1 input, 2 calls: outputs within 16 f32 epsilons of the peak; counts and getters equal", "none (concrete; the solver evaluates the f32 and f64 arithmetic of the real code)", cap=600)
_c17("c17_ffi_septic_far_position", "FastFixedIn chunk 120 Septic, f32 vs f64, max_rel 64: stepped change to ratio 0.0199 (each frame ~50 input frames further), alternating 0/1 input, 2 calls: outputs within 16 f32 epsilons of the peak; counts and getters equal", "none (concrete; the solver evaluates the f32 and f64 arithmetic of the real code)", cap=600)
_c17("c17_real_new_20", "as above with sinc_len 20 (rounded up by the constructor), oversampling 1", "none", stubs=["CpuFeature::is_detected -> false"])
_c17("c17_fto_call", "FftFixedOut<f32> vs <f64> 2->3 chunk 4 sub_chunks 2: getters, 1 call, counts, getters", "none", stubs=FFT_STUBS)
_c17("c17_ffo_step", "FastFixedOut f32 vs f64 Nearest chunk 2: symbolic setter + 1 call on both", "ratio: every accepted f64 (D_full); ramp", tier="thorough")
_c17("c17_sfo_step", "SincFixedOut f32 vs f64 +Probe(8,1) chunk 2: symbolic setter + 1 call on both", "ratio: every accepted f64 (D_full); ramp", tier="thorough")
_c17("c17_ffi_step", "FastFixedIn f32 vs f64 chunk 2, 4 warm-up calls, symbolic setter + call", "ratio k/32; ramp", tier="thorough")
_c17("c17_sfi_step", "SincFixedIn f32 vs f64 +Probe(8,1) chunk 2, 4 warm-up calls, symbolic setter + call", "ratio k/32; ramp", tier="thorough")
_c17("c17_fft_3calls", "FftFixedOut and FftFixedIn, f32 vs f64, 3 calls each", "none", stubs=FFT_STUBS, tier="thorough")
_c17("c17_witness", "different chunk sizes: must FAIL (vacuity witness)", "none", witness=True)

# ---------------------------------------------------------------- C06 / C07 / C14 / C08(b): instants (index-signal observation)
def _c06(name, props, bounds, sym, cap=900, witness=False, tier="quick"):
    own = [p for p in props if p != "C03"]
    HARNESSES[name] = H("c06", own, cap=cap, sym=sym, bounds=bounds, untagged=own[0], witness=witness, mem=6, tier=tier, props_thorough=["C03"])
_c06("c06_ffo_change_grid", ["C06", "C03"], "FastFixedOut<f64> Linear chunk 3, max_rel 2; 1 concrete warm-up call at ratio 1; then setter + 1 call; every output is the evaluation instant",
     "new ratio: k/32 (D_grid); ramp bool")
_c06("c06_sfo_change_grid", ["C06", "C03"], "SincFixedOut<f64>+Probe(8,2) Linear chunk 3, max_rel 2; 1 warm-up call; setter + 1 call; probe asserts every window lies on supplied line data",
     "new ratio: k/32 (D_grid); ramp bool")
_c06("c06_ffo_change", ["C06", "C03"], "FastFixedOut<f64> Linear chunk 3, max_rel 2; 2 concrete warm-up calls at ratio 1; then setter + 1 call; every output is the evaluation instant",
     "new ratio: every accepted f64 (D_full); ramp bool", tier="thorough")
_c06("c06_sfo_change", ["C06", "C03"], "SincFixedOut<f64>+Probe(8,2) Linear chunk 3, max_rel 2; 2 warm-up calls; setter + 1 call; probe asserts every window lies on supplied line data",
     "new ratio: every accepted f64 (D_full); ramp bool", tier="thorough")
_c06("c07_ffo_steady", ["C07", "C14", "C08", "C03"], "FastFixedOut<f64> Linear chunk 3: ratio set once then held; 2 calls from the fresh state: start position -4+(j+1)/r, uniform spacing across the chunk boundary, lag bound, output_delay",
     "ratio: every accepted f64 in [0.5, 2] (D_full)", tier="thorough")
_c06("c07_ffo_steady_grid", ["C07", "C14", "C08", "C03"], "FastFixedOut<f64> Linear chunk 4: ratio set once then held; 2 calls from the fresh state; frames inside the stream: start position -4+(j+1)/r, uniform spacing, lag bound, output_delay",
     "ratio: k/32 accepted by the setter (D_grid)")
_c06("c06_witness", ["C06", "C07", "C14", "C08"], "must FAIL (vacuity witness)", "none", witness=True)

for _n, _it, _rg in (("c03_sfo_os1_cubic", "Cubic", "oversampling_1"), ("c03_sfo_os1_quadratic", "Quadratic", "oversampling_1"), ("c03_sfo_os1_linear", "Linear", "base")):
    HARNESSES[_n] = H("c03", ["C03", "C04"], cap=600, sym="new ratio k/32 (D_grid); ramp; surplus lengths",
        bounds="SincFixedOut<f64>+Probe(8,1) %s, ONE sub-filter (oversampling factor 1), chunk 2, fresh state, setter + 1 call; region [%s]" % (_it, _rg))

# ---------------------------------------------------------------- C03 / C04 / C07: synchronous resamplers (fft_step family)
_FFT_ROWS = [('fto_2_3_6_2', 'FftFixedOut', '2, 3, 6, 2, 1', 3), ('fto_2_3_4_1', 'FftFixedOut', '2, 3, 4, 1, 1', 3), ('fto_3_2_3_1', 'FftFixedOut', '3, 2, 3, 1, 1', 3), ('fti_2_3_3_1', 'FftFixedIn', '2, 3, 3, 1, 1', 3), ('fti_2_3_1_1', 'FftFixedIn', '2, 3, 1, 1, 1', 4), ('fti_3_2_4_2', 'FftFixedIn', '3, 2, 4, 2, 1', 3), ('ftio_2_3_2', 'FftFixedInOut', '2, 3, 2, 1', 2), ('ftio_3_2_4', 'FftFixedInOut', '3, 2, 4, 1', 2)]
for (_n, _typ, _args, _calls) in _FFT_ROWS:
    HARNESSES["c07_" + _n] = H("c07f", ["C07", "C04"], cap=600, mem=7, stubs=FFT_STUBS, untagged="C04", props_thorough=["C03"],
        sym="caller buffer surplus lengths in [0,1] (no adjustable parameter exists on synchronous types)",
        bounds="%s::<f64>::new(%s), %d calls from the fresh state; index-signal input, sentinel output; stub FFT: block bookkeeping only" % (_typ, _args, _calls))
HARNESSES["c07_ftio_sizing"] = H("c07f", ["C07", "C04"], cap=600, mem=7, stubs=FFT_STUBS, sym="none",
    bounds="FftFixedInOut::new for 6 concrete (rate_in, rate_out, chunk) triples: in*rate_out == out*rate_in, in >= chunk and smallest")
HARNESSES["c07_fft_witness"] = H("c07f", ["C07", "C04"], cap=300, mem=7, stubs=FFT_STUBS, sym="none", bounds="must FAIL (vacuity witness)", witness=True)

for _n, _t in (("c03_ffo_three_changes", "FastFixedOut<f64> Linear"), ("c03_sfo_three_changes", "SincFixedOut<f64>+Probe(8,2) Linear")):
    HARNESSES[_n] = H("c03", ["C03", "C04"], cap=900, sym="third ratio change: k/32 (D_grid); ramp; surplus lengths",
        bounds="%s chunk 3, max_rel 2; concrete history: call at 1.0, setter 1.25 + call, setter 1.25 + call; then symbolic setter + call (every setter recomputes the input need); region [base]" % _t)


# ---------------------------------------------------------------- C05: chunking / variant independence
def _c05(name, bounds, sym, stubs=(), cap=900, witness=False, tier="quick"):
    HARNESSES[name] = H("c05", ["C05"], cap=cap, sym=sym, bounds=bounds, stubs=stubs, untagged="C05", witness=witness, mem=(7 if stubs else 4), tier=tier, props_thorough=["C03"])
_c05("c05_ffo_chunks_2_3", "FastFixedOut<f64> Nearest ratio 0.75: chunk 2 (3 calls) vs chunk 3 (2 calls) on the same stream; common prefix >= 6 frames bit-identical", "the signal: every finite f32 value per input sample (24 samples)")
_c05("c05_sfo_chunks_1_3", "SincFixedOut<f64>+Probe(4,2) Nearest ratio 1.5: chunk 1 (6 calls) vs chunk 3 (2 calls); index-signal input", "none (concrete; the solver decides the safety checks and the equalities)")
_c05("c05_ffi_vs_ffo", "FastFixedIn chunk 8 (2 calls) vs FastFixedOut chunk 5 (2 calls), Nearest ratio 1: common prefix >= 8 frames bit-identical", "the signal: every finite f32 value per input sample")
_c05("c05_sfi_chunk_change", "SincFixedIn<f64>+Probe(4,2) Linear, max chunk 8, ratio 1: 2 calls, set_chunk_size(c), 2 calls; strict probe (windows on supplied line data) and uniform instants", "c in [1,8]")
_c05("c05_sfo_chunk_change", "SincFixedOut<f64>+Probe(4,2) Linear, max chunk 4, ratio 1: 2 calls, set_chunk_size(c), 2 calls; strict probe and uniform instants", "c in [1,4]")
_c05("c05_ftio_vs_fti", "FftFixedInOut(2,3,2) 2 calls vs FftFixedIn(2,3,4,2) 1 call: same FFT block 2/3; outputs bit-identical", "none (concrete)", stubs=FFT_STUBS)
_c05("c05_ftio_vs_fto", "FftFixedInOut(2,3,2) 2 calls vs FftFixedOut(2,3,3,1) 2 calls: same FFT block; outputs bit-identical", "none (concrete)", stubs=FFT_STUBS)
_c05("c05_witness", "different ratios: must FAIL (vacuity witness)", "none", witness=True)

# ---------------------------------------------------------------- C14: output_delay
def _c14(name, bounds, sym, cap=900, witness=False, tier="quick"):
    HARNESSES[name] = H("c14", ["C14"], cap=cap, sym=sym, bounds=bounds, untagged="C14", witness=witness, mem=6, tier=tier)
_c14("c14_ffo", "FastFixedOut<f64> Linear chunk 3: ratio set once, 2 calls; every frame inside the stream: |j - (tau*ratio + output_delay())| <= max(1,ratio)+1", "ratio: every accepted f64 (D_full)")
_c14("c14_sfo", "SincFixedOut<f64>+Probe(8,2) Linear chunk 3: ratio set once, 2 calls; probe value = kernel window centre; region [sinc_types] (recorded finding F8)", "ratio k/32 (D_grid)")
_c14("c14_witness", "must FAIL (vacuity witness)", "none", witness=True)

# ---------------------------------------------------------------- recorded-finding regions and constructor-ratio harnesses
HARNESSES["c03_ffi_big_jump"] = H("c03x", ["C03", "C04"], cap=900, mem=6, sym="new ratio k/8 in [0.2, 8] (span of reciprocals >= 3 frames); ramp",
    bounds="FastFixedIn<f64> Nearest chunk 2, range [1/8, 8]: 6 calls at 1/8, then setter + 1 call; region [recip_span_ge3] (recorded finding F5)")
HARNESSES["c03_ffi_big_jump"]["untagged_region"] = "recip_span_ge3"
HARNESSES["c10_sfo_ctor_ratio"] = H("c03x", ["C10", "C04"], cap=1200, mem=6, untagged="C10", sym="CONSTRUCTOR ratio: every f64 in [0.5, 2]",
    bounds="SincFixedOut<f64>+Probe(2,1) chunk 2: getters of a fresh instance vs after reset() (no processing call; allocation sizes are symbolic)")
HARNESSES["c10_ffo_ctor_ratio"] = H("c03x", ["C10", "C04"], cap=1200, mem=6, untagged="C10", sym="CONSTRUCTOR ratio: every f64 in [0.5, 2]",
    bounds="FastFixedOut<f64> chunk 2: getters fresh vs after reset()")

# ---------------------------------------------------------------- additions after the seeded-change analysis
_c06("c06_ffi_change_grid", ["C06"], "FastFixedIn<f64> Linear chunk 8, max_rel 1.5; 2 warm-up calls at ratio 1; setter + 1 call (variable number of frames)", "new ratio k/32 (D_grid); ramp bool", tier="thorough")
_c06("c06_sfi_change_grid", ["C06"], "SincFixedIn<f64>+Probe(8,2) Linear chunk 8, max_rel 1.5; 2 warm-up calls; setter + 1 call; strict probe", "new ratio k/32 (D_grid); ramp bool", tier="thorough")
_c06("c06_sfo_ramp_then_step", ["C06"], "SincFixedOut<f64>+Probe(2,2) Linear chunk 4: set(0.5, ramp) immediately followed by set(0.5, step) vs a twin that only received the step: input need, counts and outputs identical", "none (concrete)", cap=600)
_c06("c06_ffo_ramp_then_step", ["C06"], "FastFixedOut<f64> Linear chunk 4: as above", "none (concrete)", cap=600)
_c06("c06_sfo_after_ramp_grid", ["C06"], "SincFixedOut<f64>+Probe(8,2) Linear chunk 3: 2 warm-up calls, ramped change, the ramp chunk, then the chunk AFTER the ramp: spacing == 1/new from its first frame, windows on supplied data", "new ratio k/32 (D_grid), ramp = true")
_c06("c07_ffi_slow", ["C07"], "FastFixedIn<f64> Linear chunk 7, constant ratio 0.1 (1/r = 10 > 7), 8 calls from the fresh state: uniform spacing across chunk boundaries, lag bound, at least 4 frames observed", "none (concrete slow ratio; the solver decides the safety checks and the float comparisons)")
_c06("c08_ffo_tiny_chunk_line", ["C08"], "FastFixedOut<f64> Linear chunk 2, max_rel 4: 3 calls at ratio 1, stepped change to 4.0 (chunk < ratio: some calls need NO new input), 4 calls: instants uniformly 0.25 apart; at least one zero-input call observed", "none (concrete)", cap=900)
_c06("c08_ffo_cubic_poly", ["C08"], "FastFixedOut<f64> Cubic chunk 3: input is a cubic polynomial of the frame index; 2 calls; every frame inside the stream equals the polynomial at -4+(j+1)/r within 1e-9", "ratio k/32 (D_grid)", tier="thorough")
for _n, _t in (("c03_ffo_two_steps", "FastFixedOut<f64> Nearest chunk 2"), ("c03_sfo_two_steps", "SincFixedOut<f64>+Probe(8,1) Nearest chunk 2"), ("c03_ffi_two_steps", "FastFixedIn<f64> Nearest chunk 2 (4 warm-up calls; k/32 grid)")):
    HARNESSES[_n] = H("c03", ["C03", "C04"], tier="thorough", cap=1800, thorough_cap=3600, mem=8,
        sym="TWO successive steps, each: new ratio (every accepted f64; FixedIn: k/32), ramp, surplus lengths", bounds=_t + ", max_rel 2; 1 warm-up call; region [base]")
for _n, _t in (("c03_ffo_reset_step", "FastFixedOut<f64> Nearest chunk 2"), ("c03_sfo_reset_step", "SincFixedOut<f64>+Probe(8,1) Nearest chunk 2")):
    HARNESSES[_n] = H("c03", ["C03", "C04"], cap=900, sym="post-reset ratio change k/32 (D_grid); ramp; surplus lengths",
        bounds=_t + ", max_rel 2: ratio 0.5 + call, reset(), symbolic setter + call, one more call; region [base]")
HARNESSES["c07_fto_2_3_1_1"] = H("c07f", ["C07", "C04"], cap=900, mem=7, stubs=FFT_STUBS, untagged="C04", props_thorough=["C03"],
    sym="caller buffer surplus lengths in [0,1]", bounds="FftFixedOut::<f64>::new(2, 3, 1, 1, 1): FFT block (3) three times the output chunk (1): some calls need no input; 4 calls")
for _n, _d, _r in (("c08_ffi_quintic_line", "Quintic", "1.6"), ("c08_ffi_septic_line", "Septic", "0.8"), ("c08_ffi_cubic_line", "Cubic", "2.0")):
    _c06(_n, ["C08"], "FastFixedIn<f64> %s chunk 8, constant ratio %s, 3 calls on the index signal: every frame inside the stream sits at -4+(j+1)/ratio (window selection; a line is reproduced exactly by every degree >= 1)" % (_d, _r),
         "none (concrete ratio with non-integer instants; the solver decides the safety checks and the equalities)")
_c13("c13_shape_fti_zero_output_lite", "FftFixedIn<f64>::new(2,3,1,1,2): chunk smaller than the FFT block, first call advertises zero output frames; symbolic shapes; result classification, writes nothing, getters unchanged", stubs=FFT_STUBS)
_c13("c13_ffi_failed_call_ramp_pending", "FastFixedIn<f64> Linear chunk 3: ramped change to 1.5 pending, one failed call (input or output one frame short), then a valid call compared bit-exactly with a twin that never saw the failure; getters equal", sym="which malformed call (2 variants)", cap=600)
_c13("c13_sfo_failed_call_ramp_pending", "SincFixedOut<f64>+Probe(2,2) Linear chunk 3: ramped change to 0.5 pending, one failed call, then a valid call vs twin; getters equal", sym="which malformed call (2 variants)", cap=600)
_c13("c13_ffo_failed_call_midstream", "FastFixedOut<f64> Linear ratio 0.75 chunk 2: two valid calls on the index signal, one failed call, then a valid call compared bit-exactly with a twin", sym="which malformed call: input one frame short / output one frame short / too many input channels")
_c05("c05_ftio_vs_fto_small_chunk", "FftFixedInOut(2,3,2) 2 calls vs FftFixedOut(2,3,1,1) 6 calls: FFT block 3 larger than the output chunk 1; outputs bit-identical", "none (concrete)", stubs=FFT_STUBS)
_c06("c06_ffo_change_big", ["C06"], "FastFixedOut<f64> Linear chunk 20, max_rel 2: 1 warm-up call, setter + 1 call (the input need during a ramp only matters when chunk*|1/old-1/new| exceeds the 8-frame margin)", "new ratio k/32 (D_grid); ramp bool", tier="thorough", cap=3600)

HARNESSES["c03_sfo_chunk_reset_plain"] = H("c03", ["C03", "C04"], cap=900, sym="chunk size before the reset: 1..8",
    bounds="SincFixedOut<f64>+Probe(2,1) Nearest max chunk 8, max_rel 1.25: set_chunk_size(c), call, reset(), two plain calls; region [base]")
HARNESSES["c03_ffo_reset_plain"] = H("c03", ["C03", "C04"], cap=900, sym="ratio before the reset: k/32 (D_grid); ramp",
    bounds="FastFixedOut<f64> Nearest chunk 10, max_rel 2: setter, reset(), two plain calls (no setter after the reset); region [base]")
_c05("c05_sfi_chunk_change_to3", "SincFixedIn<f64>+Probe(4,2) Linear, max chunk 8, ratio 1: 2 calls, set_chunk_size(3), 2 calls; strict probe and uniform instants", "none (concrete new size; the symbolic-size variant is thorough)")
HARNESSES["c05_sfi_chunk_change"]["tier"] = "thorough"
HARNESSES["c05_sfi_chunk_change"]["thorough_cap"] = 3600
_c14("c14_ffi_changed", "FastFixedIn<f64> Linear chunk 10: stepped change to 2.0 or 0.5, 2 calls; every frame inside the stream: |j - (tau*ratio + output_delay())| <= max(1,ratio)+1", "direction of the change (2 concrete ratios)")
_c14("c14_ffo_grid", "FastFixedOut<f64> Linear chunk 3: ratio set once, 2 calls; every frame inside the stream: |j - (tau*ratio + output_delay())| <= max(1,ratio)+1", "ratio k/32 (D_grid)")
HARNESSES["c14_ffo"]["tier"] = "thorough"

# ---------------------------------------------------------------- concrete witnesses of recorded findings (quick) / symbolic region harnesses (thorough)
_c06("c06_sfo_ramp_down_kf", ["C06"], "SincFixedOut<f64>+Probe(8,2) Linear chunk 3: 2 warm-up calls, ramp 1.0 -> 0.5, 1 call; all warp checks under region [ramp_down_sinc] (recorded finding F6)", "none (concrete witness)")
_c06("c06_sfo_change_grid_all", ["C06"], "as c06_sfo_change_grid but including ramped slow-downs (region ramp_down_sinc)", "new ratio k/32 (D_grid); ramp bool", tier="thorough")
_c14("c14_sfo_kf", "SincFixedOut<f64>+Probe(8,2) Linear chunk 3, ratio 1.0: 2 calls; region [sinc_types] (recorded finding F8)", "none (concrete witness)")
HARNESSES["c14_sfo"]["tier"] = "thorough"
HARNESSES["c03_sfo_os1_cubic_kf"] = H("c03", ["C03", "C04"], cap=600, sym="none (concrete witness)",
    bounds="SincFixedOut<f64>+Probe(8,1) Cubic, ONE sub-filter, chunk 2, first call of a fresh instance; region [oversampling_1] (recorded finding F-OS1)")
HARNESSES["c03_sfo_os1_cubic"]["tier"] = "thorough"
HARNESSES["c03_sfo_os1_quadratic"]["tier"] = "thorough"
HARNESSES["c03_ffi_big_jump_kf"] = H("c03x", ["C03", "C04"], cap=600, mem=6, sym="none (concrete witness)",
    bounds="FastFixedIn<f64> Nearest chunk 2, range [1/8, 8]: 6 calls at 1/8, set_resample_ratio(2.0, false), 1 call; region [recip_span_ge3] (recorded finding F5)")
HARNESSES["c03_ffi_big_jump_kf"]["untagged_region"] = "recip_span_ge3"
HARNESSES["c03_ffi_big_jump"]["tier"] = "thorough"

HARNESSES["c17_real_new_20"]["tier"] = "thorough"
HARNESSES["c17_real_new_20"]["thorough_cap"] = 1500   # did not terminate within 30 min in the validation run

for _n in ("c10_fto_2", "c10_fto_mult_2", "c10_fti_2", "c10_ffo_ctor_ratio"):
    HARNESSES[_n]["tier"] = "thorough"
    HARNESSES[_n]["thorough_cap"] = 3600


# ---------------------------------------------------------------- thorough caps
# default: twice the quick cap, at least 20 min, at most 1 h (explicit values above are kept)
for _n, _h in HARNESSES.items():
    if _h.get("thorough_cap") is None:
        _h["thorough_cap"] = min(3600, max(2 * _h["cap"], 1200))
# symbolic (orig, max) setter harnesses: did not terminate within 3600 s in a trial run; the same domain
# is decided by Engine M (mirsym/setter.py). Kept as bounded attempts.
for _n in ("c12_abs_ffi_sym", "c12_abs_ffi32_sym", "c12_abs_sfi_sym", "c12_rel_ffi_sym", "c12_rel_sfi_sym"):
    HARNESSES[_n]["thorough_cap"] = 900

for _n in ("c03_ffi_cubic_grid", "c03_sfi_quadratic_grid"):
    HARNESSES[_n]["cap"] = 900
    HARNESSES[_n]["thorough_cap"] = 1800


# ---------------------------------------------------------------- quick-tier trimming (measured on a loaded 16-core host)
# a quick check should finish in about ten minutes: harnesses that need 15-30 min or do not terminate
# within their cap move to the thorough tier
for _n in ("c16_vec_process", "c16_vec_process_partial", "c16_vec_partial", "c16_vec_into", "c16_process_ffo"):
    HARNESSES[_n]["tier"] = "thorough"
    HARNESSES[_n]["thorough_cap"] = 2400
# FFT accounting with a block larger than the chunk: refuted quickly when wrong (seeded C05a/C07b: 164 s),
# not proved within 20 min on the unchanged tree. Quick tier: bounded attempt (inconclusive on timeout).
for _n in ("c07_fti_2_3_1_1", "c07_fto_2_3_1_1"):
    HARNESSES[_n]["cap"] = 420
    HARNESSES[_n]["thorough_cap"] = 3600
HARNESSES["c07_fti_2_3_3_1"]["cap"] = 900

# thorough caps equal to the longest validated attempt (these did not terminate within it)
for _n, _c in {'c16_vec_process': 1800, 'c16_vec_process_partial': 1800, 'c17_real_new_20': 600, 'c07_fti_2_3_1_1': 1200}.items():
    HARNESSES[_n]["thorough_cap"] = _c

HARNESSES["c17_fft_3calls"]["mem"] = 10   # CBMC was killed at the 17.5 GB address-space limit of a 7 GB allowance
