#!/bin/bash
# usage: seed_run_m.sh <seed-id> <module: c08|c15|c15d|nearest|setter>
# Runs an Engine-M check against a scratch worktree of /repo HEAD with the seeded patch applied
# (does not touch /repo's working tree).
SEED=$1; MOD=$2
WT=/tmp/svm/$SEED
rm -rf $WT; mkdir -p /tmp/svm
git -C /repo worktree add -q --detach $WT HEAD || exit 9
cd $WT && git apply /verif/seeded/$SEED/patch.diff || { echo "patch does not apply"; git -C /repo worktree remove --force $WT; exit 8; }
cd /verif && python3-vt - <<PY
import sys, json
sys.path.insert(0, '/verif')
from mirsym.mir import dump_mir, Program
path, key = dump_mir(repo='$WT', scratch='/var/tmp/rvh/mir-seed')
prog = Program(path)
import importlib
m = importlib.import_module('mirsym.$MOD')
res = m.check(prog) if '$MOD' in ('c08',) else m.check(prog, 'quick') if '$MOD' in ('c15','nearest','setter') else m.check(prog)
obs = res[0] if isinstance(res, tuple) else res
bad = [o for o in obs if o['verdict'] != 'holds' and o.get('kind') != 'note']
print('seed=$SEED module=$MOD obligations=%d not-holding=%d' % (len(obs), len(bad)))
for o in bad[:6]:
    print('  ', o['id'], o.get('region',''), o['verdict'], str(o.get('cfg', o.get('model', o.get('detail',''))))[:200])
PY
git -C /repo worktree remove --force $WT
