#!/bin/bash
# usage: sweep.sh <tier> <prop> [<prop> ...]   — runs the checks in sequence, one log per property
TIER=$1; shift
cd /verif
for p in "$@"; do
  ./rv check $p --tier $TIER > /var/tmp/rvh/sweep-$p.log 2>&1
  echo "$p exit=$? $(grep -E 'tier=' /var/tmp/rvh/sweep-$p.log | tail -1)" >> /var/tmp/rvh/sweep-summary.log
done
echo SWEEP-DONE >> /var/tmp/rvh/sweep-summary.log
