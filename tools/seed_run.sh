#!/bin/bash
# usage: seed_run.sh <seed-id> <property> [extra rv args]
# Applies /verif/seeded/<seed-id>/patch.diff to /repo, runs the property's check, restores /repo.
set -u
SEED=$1; PROP=$2; shift 2
cd /repo || exit 9
git diff --quiet || { echo "/repo has uncommitted changes; refusing"; exit 9; }
git apply /verif/seeded/$SEED/patch.diff || { echo "patch does not apply"; exit 8; }
trap 'git -C /repo checkout -- . ' EXIT
cd /verif
./rv check $PROP "$@" > /var/tmp/rvh/seed-$SEED-$PROP.log 2>&1
RC=$?
grep -E "^VIOLATION|^KNOWN-FINDING|^MACHINERY|tier=" /var/tmp/rvh/seed-$SEED-$PROP.log | cut -c1-260
echo "seed=$SEED property=$PROP exit=$RC"
cp /verif/evidence/$PROP.json /var/tmp/rvh/seed-$SEED-$PROP.evidence.json 2>/dev/null
exit $RC
