#!/bin/bash
# usage: seed_run.sh <seed-id> <property> [extra rv args, e.g. --only h1,h2]
# Runs the property's check against a scratch worktree of /repo HEAD with the seeded patch applied and a
# scratch copy of the harness crate pointing at it. /repo and /verif/kani are not touched, so several
# seed runs and a clean-tree run can go on at the same time.
set -u
SEED=$1; PROP=$2; shift 2
ROOT=/tmp/sr/$SEED-$PROP
rm -rf $ROOT; mkdir -p $ROOT
git -C /repo worktree prune
git -C /repo worktree add -q --detach $ROOT/repo HEAD || exit 9
( cd $ROOT/repo && git apply /verif/seeded/$SEED/patch.diff ) || { echo "seed=$SEED patch does not apply"; git -C /repo worktree remove --force $ROOT/repo; exit 8; }
cp /repo/Cargo.lock $ROOT/repo/Cargo.lock
rsync -a --exclude target --exclude Cargo.lock ${KSRC:-/verif/kani}/ $ROOT/kani/
sed -i "s#rubato = { path = \"/repo\" }#rubato = { path = \"$ROOT/repo\" }#" $ROOT/kani/Cargo.toml
cd /verif
RV_REPO=$ROOT/repo RV_KANI_CRATE=$ROOT/kani RV_SCRATCH=/var/tmp/rvh-seed-$SEED RV_EVID=$ROOT/evidence ./rv check $PROP "$@" > $ROOT/log 2>&1
RC=$?
grep -E "^VIOLATION|^KNOWN-FINDING|^MACHINERY|tier=" $ROOT/log | cut -c1-300
echo "seed=$SEED property=$PROP exit=$RC"
mkdir -p /var/tmp/rvh/seedlogs; cp $ROOT/log /var/tmp/rvh/seedlogs/$SEED-$PROP.log; cp $ROOT/evidence/$PROP.json /var/tmp/rvh/seedlogs/$SEED-$PROP.evidence.json 2>/dev/null
git -C /repo worktree remove --force $ROOT/repo; rm -rf $ROOT /var/tmp/rvh-seed-$SEED
exit $RC
