#!/bin/bash
# usage: seed_batch.sh <listfile> <parallel>   lines: <seed> <property> <harness,harness>
export RV_WORKERS=2 RV_MEM_GB=7
cat $1 | xargs -P $2 -L 1 bash -c '/verif/tools/seed_run.sh $0 $1 --only $2 > /var/tmp/rvh/seedlogs/batch-$0-$1.out 2>&1; tail -1 /var/tmp/rvh/seedlogs/batch-$0-$1.out'
