#!/bin/bash
# usage: seed_verify.sh <out-id> <patch> <demo.rs> <notes.md> <property>
# Confirms a seeded change independently in a scratch worktree of /repo HEAD:
#   demo passes on the clean tree; with the patch the existing suite passes and the demo fails.
set -u
ID=$1; PATCH=$2; DEMO=$3; NOTES=$4; PROP=$5
WT=/tmp/sv/$ID
export CARGO_NET_OFFLINE=true
rm -rf $WT; mkdir -p /tmp/sv
git -C /repo worktree add -q --detach $WT HEAD || exit 9
cd $WT
cp $DEMO tests/seeded_demo.rs 2>/dev/null || { mkdir -p tests; cp $DEMO tests/seeded_demo.rs; }
cargo test --offline --test seeded_demo > /tmp/sv/$ID.clean.log 2>&1; CLEAN=$?
git apply $PATCH || { echo "patch does not apply"; git -C /repo worktree remove --force $WT; exit 8; }
cargo test --offline --lib > /tmp/sv/$ID.suite.log 2>&1; SUITE=$?
cargo test --offline --doc >> /tmp/sv/$ID.suite.log 2>&1; DOC=$?
cargo test --offline --test seeded_demo > /tmp/sv/$ID.demo.log 2>&1; DEMORC=$?
NPASS=$(grep -E "^test result: ok. ([0-9]+) passed" /tmp/sv/$ID.suite.log | head -1 | sed 's/.*ok. \([0-9]*\) passed.*/\1/')
echo "$ID: demo-on-clean rc=$CLEAN (want 0); suite-with-patch rc=$SUITE doc rc=$DOC passed=$NPASS (want 0,0,96); demo-with-patch rc=$DEMORC (want !=0)"
OK=0; [ $CLEAN -eq 0 ] && [ $SUITE -eq 0 ] && [ $DOC -eq 0 ] && [ $DEMORC -ne 0 ] && OK=1
if [ $OK -eq 1 ]; then
  D=/verif/seeded/$ID; mkdir -p $D
  cp $PATCH $D/patch.diff; cp $DEMO $D/seeded_demo.rs; cp $NOTES $D/notes.md
  python3 - <<PY
import json
json.dump(dict(id="$ID", property="$PROP", patch="patch.diff", demonstration="seeded_demo.rs",
  needs_to_manifest="see notes.md (written by the independent sub-agent that produced the change)",
  confirmed=dict(base_commit="$(git -C /repo rev-parse --short HEAD)",
    demo_on_clean_tree="cargo test --offline --test seeded_demo -> exit $CLEAN (passes)",
    suite_with_patch="cargo test --offline --lib / --doc -> exit $SUITE / $DOC, $NPASS lib tests passed",
    demo_with_patch="cargo test --offline --test seeded_demo -> exit $DEMORC (fails)"),
  detected_by=None), open("$D/meta.json","w"), indent=1)
PY
fi
cd /; git -C /repo worktree remove --force $WT
exit $((1-OK))
