"""mirsym — explicit models of the std / core / core::arch callees that appear
in the encoded bodies. This list is part of the trusted base and is reported in
the evidence (`models_used`). An unmodelled callee aborts the run."""
import re
import z3
from .interp import (Ref, SliceRef, VecObj, Variant, Struct, IterObj, UNIT, UB, Unmodelled, is_sym, copy_val)


def some(v):
    return Variant("Some", 1, [v])


def none():
    return Variant("None", 0, [])


def as_slice(v):
    if isinstance(v, SliceRef):
        return v
    if isinstance(v, VecObj):
        return SliceRef(v.items, 0, len(v.items), v.tag)
    if isinstance(v, Ref):
        return as_slice(v.get())
    if isinstance(v, list):
        return SliceRef(v, 0, len(v))
    raise Unmodelled("as_slice of %r" % type(v))


def deref(v):
    while isinstance(v, Ref):
        v = v.get()
    return v


def load_lanes(I, st, ptr, n):
    """unaligned vector load of n lanes from a raw element pointer"""
    if not isinstance(ptr, Ref) or not isinstance(ptr.c, list):
        raise Unmodelled("vector load from %r" % type(ptr))
    if ptr.k + n > len(ptr.c):
        st.events.append(("ub", "vector load of %d lanes at %d beyond allocation of %d" % (n, ptr.k, len(ptr.c))))
        raise UB("vector load out of bounds")
    if ptr.tag is not None:
        for j in range(n):
            st.reads.append((ptr.tag, ptr.k + j))
    return [ptr.c[ptr.k + j] for j in range(n)]


def FPDom_cls():
    from .interp import FPDom
    return FPDom


def call(I, callee, args, st):
    D = I.dom
    c = re.sub(r"<impl at [^>]*>", "<impl>", callee)

    def used(name):
        I.models_used.add(name)

    # ---- generic sample arithmetic: T read as the domain's sort
    m = re.match(r"^<T as (?:std::ops::)?(Add|Sub|Mul|Div|Neg)>::(add|sub|mul|div|neg)$", c)
    if m:
        used("<T as %s>" % m.group(1))
        op = m.group(2)
        if op == "neg":
            return True, D.neg(args[0])
        return True, getattr(D, op)(args[0], args[1])
    m = re.match(r"^<T as (?:std::ops::)?(Add|Sub|Mul|Div)Assign>::(\w+)_assign$", c)
    if m:
        used("<T as %sAssign>" % m.group(1))
        r = args[0]
        r.set(getattr(D, m.group(2))(r.get(), args[1]))
        return True, UNIT
    if re.match(r"^<T as (sample::)?Sample>::coerce::<f(64|32)>$", c):
        used("T::coerce::<float> = identity into the sort")
        return True, args[0]
    if re.match(r"^<T as (sample::)?Sample>::coerce::<usize>$", c):
        used("T::coerce::<usize> = exact int->sort")
        return True, D.from_int(args[0])
    if re.match(r"^<T as (num_traits::)?(identities::)?Zero>::zero$", c):
        used("T::zero")
        return True, D.const(0.0)
    if re.match(r"^<T as (num_traits::)?(identities::)?One>::one$", c):
        used("T::one")
        return True, D.const(1.0)
    m = re.match(r"^std::f(64|32)::<impl f(64|32)>::(floor|ceil|round)$", c)
    if m:
        used("f64::" + m.group(3))
        return True, getattr(D, m.group(3))(args[0])

    m = re.match(r"^(?:core|std)::f(64|32)::<impl f(64|32)>::(max|min)$", c)
    if m and isinstance(D, FPDom_cls()):
        used("f64::" + m.group(3) + " (IEEE maxNum/minNum; operands of one sign)")
        return True, (z3.fpMax if m.group(3) == "max" else z3.fpMin)(args[0], args[1])

    if re.search(r"SincInterpolator<T>>::len$", c) and hasattr(I, "ctx") and "sinc_len" in I.ctx:
        used("dyn SincInterpolator::len -> concrete length of the harness")
        return True, I.ctx["sinc_len"]
    m = re.match(r"^std::f(32|64)::<impl f(32|64)>::(floor|ceil|round)$", c)
    if m:
        used("f%s::%s" % (m.group(1), m.group(3)))
        return True, getattr(D, m.group(3))(args[0])

    # ---- slices / vectors / iterators
    if re.match(r"^<Vec<.*> as Deref>::deref$", c):
        used("Vec::deref")
        return True, as_slice(args[0])
    if re.match(r"^Vec::<.*>::new$", c):
        used("Vec::new")
        return True, VecObj([])
    if re.match(r"^Vec::<.*>::push$", c):
        used("Vec::push")
        deref(args[0]).items.append(args[1])
        return True, UNIT
    if re.match(r"^(Vec::<.*>|core::slice::<impl \[.*\]>)::len$", c):
        used("len")
        return True, as_slice(args[0]).len
    if re.match(r"^<Vec<.*> as Index<usize>>::index$", c):
        used("Vec::index(usize)")
        s = as_slice(args[0])
        i = args[1]
        if not (0 <= i < s.len):
            st.events.append(("panic", "index out of bounds"))
            raise UB("checked index out of bounds")
        return True, Ref(s.lst, s.start + i, s.tag)
    if re.match(r"^core::slice::<impl \[.*\]>::get_unchecked::<usize>$", c):
        used("slice::get_unchecked(usize)")
        s = as_slice(args[0])
        i = args[1]
        if is_sym(i):
            raise Unmodelled("symbolic get_unchecked index")
        if not (0 <= i < s.len):
            st.events.append(("ub", "get_unchecked(%d) on slice of length %d" % (i, s.len)))
            raise UB("get_unchecked out of bounds")
        return True, Ref(s.lst, s.start + i, s.tag)
    if re.match(r"^<\[.*\] as Index<std::ops::Range<usize>>>::index$", c):
        used("slice::index(Range)")
        s = as_slice(args[0])
        r = args[1].fields
        a, b = r["start"], r["end"]
        if not (0 <= a <= b <= s.len):
            st.events.append(("panic", "range %d..%d out of slice of length %d" % (a, b, s.len)))
            raise UB("checked range out of bounds")
        return True, SliceRef(s.lst, s.start + a, b - a, s.tag)
    if re.match(r"^core::slice::<impl \[.*\]>::iter$", c):
        used("slice::iter")
        s = as_slice(args[0])
        return True, IterObj("slice", s=s, pos=0)
    if re.match(r"^core::slice::<impl \[.*\]>::chunks$", c):
        used("slice::chunks")
        s = as_slice(args[0])
        if args[1] == 0:
            st.events.append(("panic", "chunk size must be non-zero"))
            raise UB("chunks(0)")
        return True, IterObj("chunks", s=s, pos=0, n=args[1])
    if re.match(r"^<.* as IntoIterator>::into_iter$", c):
        used("IntoIterator::into_iter (identity)")
        return True, args[0]
    if re.match(r"^<std::ops::Range<(usize|isize)> as Iterator>::enumerate$", c):
        used("Iterator::enumerate")
        return True, IterObj("enumerate", inner=args[0], count=0)
    if re.match(r"^<.* as Iterator>::next$", c):
        it = deref(args[0])
        if isinstance(it, Struct) and "start" in it.fields:
            used("Range::next")
            a, b = it.fields["start"], it.fields["end"]
            if a < b:
                it.fields["start"] = a + 1
                return True, some(a)
            return True, none()
        if isinstance(it, IterObj) and it.kind == "slice":
            used("slice::Iter::next")
            if it.pos < it.s.len:
                r = Ref(it.s.lst, it.s.start + it.pos, it.s.tag)
                it.pos += 1
                return True, some(r)
            return True, none()
        if isinstance(it, IterObj) and it.kind == "chunks":
            used("Chunks::next")
            if it.pos < it.s.len:
                n = min(it.n, it.s.len - it.pos)
                r = SliceRef(it.s.lst, it.s.start + it.pos, n, it.s.tag)
                it.pos += n
                return True, some(r)
            return True, none()
        if isinstance(it, IterObj) and it.kind == "enumerate":
            used("Enumerate::next")
            inner = it.inner
            a, b = inner.fields["start"], inner.fields["end"]
            if a < b:
                inner.fields["start"] = a + 1
                k = it.count
                it.count += 1
                return True, some([k, a])
            return True, none()
        raise Unmodelled("Iterator::next on %r" % type(it))

    if re.match(r"^core::slice::<impl \[.*\]>::as_ptr$", c) or re.match(r"^core::slice::<impl \[.*\]>::as_mut_ptr$", c):
        used("slice::as_ptr")
        s = as_slice(args[0])
        return True, Ref(s.lst, s.start, s.tag)
    if re.match(r"^(std|core)::ptr::(const_ptr|mut_ptr)::<impl \*(const|mut) .*>::(add|offset)$", c):
        used("ptr::add (raw pointer arithmetic inside one allocation)")
        p, n = args
        if not isinstance(p, Ref) or not isinstance(p.c, list) or is_sym(n):
            raise Unmodelled("pointer arithmetic on %r" % type(p))
        return True, Ref(p.c, p.k + n, p.tag)

    # ---- x86 intrinsics (lane-wise, from Intel's definitions); FMA = a*b+c
    m = re.match(r"^_mm(256)?_setzero_(ps|pd)$", c)
    if m:
        used(c)
        n = (8 if m.group(2) == "ps" else 4) // (1 if m.group(1) else 2)
        return True, [D.const(0.0) for _ in range(n)]
    m = re.match(r"^_mm(256)?_loadu_(ps|pd)$", c)
    if m:
        used(c)
        n = (8 if m.group(2) == "ps" else 4) // (1 if m.group(1) else 2)
        return True, load_lanes(I, st, args[0], n)
    if re.match(r"^_mm256_fmadd_(ps|pd)$", c):
        used(c)
        return True, [D.fma(a, b, cc) for a, b, cc in zip(args[0], args[1], args[2])]
    if re.match(r"^_mm(256)?_add_(ps|pd)$", c):
        used(c)
        return True, [D.add(a, b) for a, b in zip(args[0], args[1])]
    if re.match(r"^_mm(256)?_mul_(ps|pd)$", c):
        used(c)
        return True, [D.mul(a, b) for a, b in zip(args[0], args[1])]
    m = re.match(r"^_mm256_extractf128_(ps|pd)::<(\d)>$", c)
    if m:
        used(c)
        h = len(args[0]) // 2
        k = int(m.group(2))
        return True, list(args[0][k * h:(k + 1) * h])
    if re.match(r"^_mm256_cast(ps256_ps128|pd256_pd128)$", c):
        used(c)
        return True, list(args[0][:len(args[0]) // 2])
    if c == "_mm_hadd_ps":
        used(c)
        a, b = args
        return True, [D.add(a[0], a[1]), D.add(a[2], a[3]), D.add(b[0], b[1]), D.add(b[2], b[3])]
    if c == "_mm_hadd_pd":
        used(c)
        a, b = args
        return True, [D.add(a[0], a[1]), D.add(b[0], b[1])]
    if c in ("_mm_store_ss", "_mm_store_sd"):
        used(c)
        args[0].set(args[1][0])
        return True, UNIT
    return False, None
