"""mirsym — parser for rustc's `-Zunpretty=mir` text dumps (only the subset
needed for rubato's numeric leaf functions)."""
import re, os, subprocess, shutil, hashlib


class Body:
    def __init__(self, name, header, params, ret, lines):
        self.name = name          # full printed name (may embed `<impl at file:line>`)
        self.header = header
        self.params = params      # [(local_no, type_str)]
        self.ret = ret
        self.locals = {}          # no -> type string
        self.blocks = {}          # 'bbN' -> (stmts[list[str]], terminator str)
        self._parse(lines)

    def _parse(self, lines):
        for no, ty in self.params:
            self.locals[no] = ty
        cur = None
        stmts = []
        for raw in lines:
            l = raw.strip()
            m = re.match(r"^let (?:mut )?_(\d+): (.*);$", l)
            if m and cur is None:
                self.locals[int(m.group(1))] = m.group(2)
                continue
            m = re.match(r"^(bb\d+)(?: \(cleanup\))?: \{$", l)
            if m:
                cur = m.group(1)
                stmts = []
                continue
            if cur is not None:
                if l == "}":
                    if stmts:
                        self.blocks[cur] = (stmts[:-1], stmts[-1])
                    cur = None
                    continue
                if l == "" or l.startswith("//"):
                    continue
                # strip trailing comments
                l = re.sub(r"\s*//.*$", "", l)
                stmts.append(l)

    def short(self):
        """module + function name without the `<impl at ...>` position."""
        return re.sub(r"<impl at [^>]*>", "<impl>", self.name)


def split_top(s, sep=","):
    """Split on `sep` at nesting depth 0 of () [] {} <>."""
    out, depth, cur = [], 0, ""
    i = 0
    while i < len(s):
        c = s[i]
        if c in "([{":
            depth += 1
        elif c in ")]}":
            depth -= 1
        elif c == "<" and not s[i:i + 2] in ("<=", "<<"):
            depth += 1
        elif c == ">" and i > 0 and s[i - 1] not in "-=" and s[i:i + 2] not in (">=", ">>"):
            depth -= 1
        if c == sep and depth == 0:
            out.append(cur.strip())
            cur = ""
        else:
            cur += c
        i += 1
    if cur.strip() != "":
        out.append(cur.strip())
    return out


def parse_file(path):
    text = open(path).read()
    lines = text.splitlines()
    bodies = []
    i = 0
    n = len(lines)
    while i < n:
        l = lines[i]
        if l.startswith("fn ") and l.rstrip().endswith("{"):
            header = l
            j = i + 1
            while j < n and lines[j] != "}":
                j += 1
            m = re.match(r"^fn (.*?)\((.*)\) -> (.*) \{$", header)
            if m:
                name, ps, ret = m.group(1), m.group(2), m.group(3)
                params = []
                for p in split_top(ps):
                    pm = re.match(r"^_(\d+): (.*)$", p)
                    if pm:
                        params.append((int(pm.group(1)), pm.group(2)))
                bodies.append(Body(name, header, params, ret, lines[i + 1:j]))
            i = j + 1
        else:
            i += 1
    return bodies


class Program:
    def __init__(self, path):
        self.path = path
        self.bodies = parse_file(path)
        # simple named constants: `const NAME: ty = const LIT;`
        self.consts = {}
        for l in open(path):
            m = re.match(r"^const ([\w:]+): \w+ = const (.*);$", l.rstrip())
            if m:
                self.consts[m.group(1).split("::")[-1]] = m.group(2)

    def find(self, name_re, param_res=None):
        """Locate bodies by name regex (applied to the position-free name) and
        optional regexes on the parameter type list."""
        out = []
        for b in self.bodies:
            if re.search(name_re, b.short()):
                ok = True
                if param_res:
                    tys = [t for _, t in b.params]
                    if len(tys) < len(param_res):
                        ok = False
                    else:
                        for t, r in zip(tys, param_res):
                            if r is not None and not re.search(r, t):
                                ok = False
                if ok:
                    out.append(b)
        return out

    def one(self, name_re, param_res=None):
        r = self.find(name_re, param_res)
        if len(r) != 1:
            raise LookupError("expected exactly one body for %s %s, found %d: %s" % (
                name_re, param_res, len(r), [b.short() for b in r][:6]))
        return r[0]


def dump_mir(repo="/repo", scratch="/var/tmp/rvh/mir", features_default=False):
    """Regenerate the MIR dump from the current working tree of `repo` in a
    scratch copy (outside /repo and /verif). Cached by source hash."""
    os.makedirs(scratch, exist_ok=True)
    h = hashlib.sha256()
    for d, dn, fn in os.walk(os.path.join(repo, "src")):
        dn.sort()
        for f in sorted(fn):
            p = os.path.join(d, f)
            h.update(p.encode())
            h.update(open(p, "rb").read())
    h.update(open(os.path.join(repo, "Cargo.toml"), "rb").read())
    key = h.hexdigest()[:16]
    out = os.path.join(scratch, "rubato-%s%s.mir" % ("fft-" if features_default else "", key))
    if os.path.exists(out) and os.path.getsize(out) > 1000:
        return out, key
    copy = os.path.join(scratch, "repo-fft" if features_default else "repo")
    shutil.rmtree(copy, ignore_errors=True)
    subprocess.run(["rsync", "-a", "--exclude", "target", "--exclude", ".git", repo + "/", copy + "/"], check=True)
    env = dict(os.environ)
    env["CARGO_NET_OFFLINE"] = "true"
    cmd = ["cargo", "+nightly", "rustc", "--offline", "--lib", "--no-default-features"] + \
          (["--features", "fft_resampler"] if features_default else []) + \
          ["--target-dir", os.path.join(scratch, "target-fft" if features_default else "target"), "--",
           "-Zunpretty=mir", "-Zmir-opt-level=0", "-C", "overflow-checks=on", "-C", "debug-assertions=off"]
    # force a re-run: cargo prints nothing if the unit is fresh
    os.utime(os.path.join(copy, "src", "lib.rs"))
    r = subprocess.run(cmd, cwd=copy, env=env, capture_output=True, text=True)
    if r.returncode != 0 or len(r.stdout) < 1000:
        raise RuntimeError("MIR dump failed: " + r.stderr[-2000:])
    with open(out, "w") as f:
        f.write(r.stdout)
    shutil.rmtree(copy, ignore_errors=True)
    # keep only the newest few dumps
    dumps = sorted((os.path.getmtime(os.path.join(scratch, x)), x) for x in os.listdir(scratch) if x.endswith(".mir"))
    for _, x in dumps[:-6]:
        os.remove(os.path.join(scratch, x))
    return out, key
