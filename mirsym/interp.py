"""mirsym — symbolic interpreter for MIR bodies: concrete control where the
values are concrete, forking (path conditions) where they are symbolic;
sample values are z3 terms of a chosen sort (Real or IEEE FP); every memory
access is bounds-checked and logged. Unmodelled callees abort the run."""
import re, copy
from fractions import Fraction
import z3
from .mir import split_top


class Unmodelled(Exception):
    pass


class UB(Exception):
    pass


# ------------------------------------------------------------------ values
class Ref:
    """Reference / raw pointer to a location: container[key]."""
    __slots__ = ("c", "k", "tag")

    def __init__(self, c, k, tag=None):
        self.c, self.k, self.tag = c, k, tag

    def get(self):
        return self.c[self.k]

    def set(self, v):
        self.c[self.k] = v


class SliceRef:
    __slots__ = ("lst", "start", "len", "tag")

    def __init__(self, lst, start, length, tag=None):
        self.lst, self.start, self.len, self.tag = lst, start, length, tag


class VecObj:
    def __init__(self, items=None, tag=None):
        self.items = items if items is not None else []
        self.tag = tag


class Variant:
    def __init__(self, name, idx, fields):
        self.name, self.idx, self.fields = name, idx, fields


class Struct:
    def __init__(self, name, fields):
        self.name, self.fields = name, fields  # dict or list


class IterObj:
    def __init__(self, kind, **kw):
        self.kind = kind
        self.__dict__.update(kw)


UNIT = ()


# ------------------------------------------------------------------ domains
class RealDom:
    name = "Real"

    def const(self, f):
        return z3.RealVal(Fraction(f))

    def from_int(self, i):
        if isinstance(i, int):
            return z3.RealVal(i)
        return z3.ToReal(z3.BV2Int(i, True))

    def add(self, a, b): return a + b
    def sub(self, a, b): return a - b
    def mul(self, a, b): return a * b
    def div(self, a, b): return a / b
    def neg(self, a): return -a
    def fma(self, a, b, c): return a * b + c
    def eq(self, a, b): return a == b
    def lt(self, a, b): return a < b
    def le(self, a, b): return a <= b

    def to_sbv(self, a):
        """float -> int cast of a value that is a concrete integer-valued rational"""
        v = z3.simplify(a)
        if z3.is_rational_value(v) and v.denominator_as_long() == 1:
            return v.numerator_as_long()
        raise Unmodelled("FloatToInt of a non-integral / symbolic real")


class FPDom:
    def __init__(self, bits=64):
        self.bits = bits
        self.sort = z3.Float64() if bits == 64 else z3.Float32()
        self.rm = z3.RNE()
        self.name = "FP%d" % bits

    def const(self, f):
        return z3.FPVal(f, self.sort)

    def from_int(self, i):
        if isinstance(i, int):
            return z3.FPVal(float(i), self.sort) if abs(i) < 2 ** 53 else z3.fpSignedToFP(self.rm, z3.BitVecVal(i, 64), self.sort)
        return z3.fpSignedToFP(self.rm, i, self.sort)

    def add(self, a, b): return z3.fpAdd(self.rm, a, b)
    def sub(self, a, b): return z3.fpSub(self.rm, a, b)
    def mul(self, a, b): return z3.fpMul(self.rm, a, b)
    def div(self, a, b): return z3.fpDiv(self.rm, a, b)
    def neg(self, a): return z3.fpNeg(a)
    def fma(self, a, b, c): return z3.fpFMA(self.rm, a, b, c)
    def eq(self, a, b): return z3.fpEQ(a, b)
    def lt(self, a, b): return z3.fpLT(a, b)
    def le(self, a, b): return z3.fpLEQ(a, b)
    def floor(self, a): return z3.fpRoundToIntegral(z3.RTN(), a)
    def ceil(self, a): return z3.fpRoundToIntegral(z3.RTP(), a)
    def round(self, a): return z3.fpRoundToIntegral(z3.RNA(), a)  # f64::round: ties away from zero
    def to_sbv(self, a): return z3.fpToSBV(z3.RTZ(), a, z3.BitVecSort(64))

    def const_bits(self, f, bits):
        return z3.FPVal(f, z3.Float64() if bits == 64 else z3.Float32())

    def cast_float(self, a, bits):
        return z3.fpFPToFP(self.rm, a, z3.Float64() if bits == 64 else z3.Float32())

    def from_int_bits(self, i, bits):
        srt = z3.Float64() if bits == 64 else z3.Float32()
        if isinstance(i, int):
            return z3.fpSignedToFP(self.rm, z3.BitVecVal(i, 64), srt)
        return z3.fpSignedToFP(self.rm, i, srt)


def is_sym(v):
    return isinstance(v, z3.ExprRef)


def bv(v):
    return v if is_sym(v) else z3.BitVecVal(v, 64)


I64_MIN, I64_MAX = -(2 ** 63), 2 ** 63 - 1


# ------------------------------------------------------------------ state
class State:
    def __init__(self):
        self.frames = []
        self.pc = []          # path condition (z3 Bools)
        self.reads = []       # (tag, index) logged element reads
        self.events = []      # ('panic', msg) / ('ub', msg)
        self.steps = 0

    def fork(self, cond):
        st = copy.deepcopy(self)
        st.pc.append(cond)
        return st


class Interp:
    def __init__(self, program, dom, resolver=None, max_steps=200000, check_feasible=True):
        self.prog = program
        self.dom = dom
        self.resolver = resolver    # callee name -> Body or None
        self.max_steps = max_steps
        self.check_feasible = check_feasible
        self.callees_seen = set()
        self.models_used = set()
        self.solver_time = 0.0

    # ---------------------------------------------------------- feasibility
    def feasible(self, pc):
        if not self.check_feasible:
            return True
        s = z3.Solver()
        s.set("timeout", 20000)
        s.add(*pc)
        r = s.check()
        return r != z3.unsat

    # ---------------------------------------------------------- places
    def parse_place(self, s):
        s = s.strip()
        if re.match(r"^_\d+$", s):
            return ("local", int(s[1:]))
        if s.endswith("]"):
            depth = 0
            for i in range(len(s) - 1, -1, -1):
                if s[i] == "]":
                    depth += 1
                elif s[i] == "[":
                    depth -= 1
                    if depth == 0:
                        break
            base = self.parse_place(s[:i])
            idx = s[i + 1:-1].strip()
            m = re.match(r"^(\d+) of (\d+)$", idx)
            if m:
                return ("cindex", base, int(m.group(1)))
            return ("index", base, self.parse_place(idx))
        if s.startswith("(") and s.endswith(")"):
            inner = s[1:-1].strip()
            if inner.startswith("*"):
                return ("deref", self.parse_place(inner[1:]))
            # field: BASE.k: type
            depth = 0
            for i, c in enumerate(inner):
                if c in "([":
                    depth += 1
                elif c in ")]":
                    depth -= 1
                elif c == "." and depth == 0:
                    m = re.match(r"^\.(\d+): ", inner[i:])
                    if m:
                        return ("field", self.parse_place(inner[:i]), int(m.group(1)))
            m = re.match(r"^(.*) as (\w+)$", inner)
            if m:
                return ("downcast", self.parse_place(m.group(1)), m.group(2))
        raise Unmodelled("place syntax: " + s)

    def loc(self, p, st, d):
        """-> Ref to the location denoted by parsed place p."""
        k = p[0]
        if k == "local":
            return Ref(st.frames[d], p[1])
        if k == "deref":
            v = self.loc(p[1], st, d).get()
            if isinstance(v, Ref):
                return v
            if isinstance(v, (SliceRef, VecObj)):
                # deref of a slice reference: the slice itself (used by index below)
                return Ref([v], 0)
            raise Unmodelled("deref of %r" % type(v))
        if k == "field":
            base = self.loc(p[1], st, d).get()
            if isinstance(base, Variant):
                return Ref(base.fields, p[2])
            if isinstance(base, Struct):
                if isinstance(base.fields, dict):
                    key = list(base.fields.keys())[p[2]]
                    return Ref(base.fields, key)
                return Ref(base.fields, p[2])
            if isinstance(base, list):
                return Ref(base, p[2])
            raise Unmodelled("field of %r" % type(base))
        if k == "downcast":
            return self.loc(p[1], st, d)
        if k in ("index", "cindex"):
            base = self.loc(p[1], st, d).get()
            i = self.loc(p[2], st, d).get() if k == "index" else p[2]
            if is_sym(i):
                raise Unmodelled("symbolic index")
            if isinstance(base, SliceRef):
                if not (0 <= i < base.len):
                    raise UB("index %d out of slice of length %d" % (i, base.len))
                return Ref(base.lst, base.start + i, base.tag)
            if isinstance(base, list):
                if not (0 <= i < len(base)):
                    raise UB("index %d out of array of length %d" % (i, len(base)))
                return Ref(base, i)
            raise Unmodelled("index of %r" % type(base))
        raise Unmodelled("place kind " + k)

    def read_place(self, pstr, st, d):
        r = self.loc(self.parse_place(pstr), st, d)
        v = r.get()
        if r.tag is not None:
            st.reads.append((r.tag, r.k))
        return v

    # ---------------------------------------------------------- operands
    def const(self, s, hint=None):
        s = s.strip()
        if s == "()":
            return UNIT
        if s in ("true", "false"):
            return s == "true"
        m = re.match(r"^(-?[0-9][0-9_]*)_(usize|isize|u8|u16|u32|u64|i8|i16|i32|i64|u128|i128)$", s)
        if m:
            return int(m.group(1).replace("_", ""))
        m = re.match(r"^(-?[0-9.]+(?:[eE][-+]?\d+)?)(f32|f64)$", s)
        if m:
            if hasattr(self.dom, "const_bits"):
                return self.dom.const_bits(float(m.group(1)), 64 if m.group(2) == "f64" else 32)
            return self.dom.const(float(m.group(1)))
        if re.match(r"^-?\d+$", s):
            return int(s)
        nm = s.split("::")[-1]
        if re.match(r"^[A-Z_0-9]+$", nm) and nm in getattr(self.prog, "consts", {}):
            return self.const(self.prog.consts[nm])
        raise Unmodelled("const " + s)

    def operand(self, s, st, d):
        s = s.strip()
        if s.startswith("copy "):
            v = self.read_place(s[5:], st, d)
            return copy_val(v)
        if s.startswith("move "):
            return self.read_place(s[5:], st, d)
        if s.startswith("const "):
            return self.const(s[6:])
        raise Unmodelled("operand " + s)

    # ---------------------------------------------------------- int ops
    def int_bin(self, op, a, b, st):
        if not is_sym(a) and not is_sym(b) and not isinstance(a, bool):
            if op == "Add": return a + b
            if op == "Sub": return a - b
            if op == "Mul": return a * b
            if op == "Div": return int(a / b) if b != 0 else self._ub(st, "div by zero")
            if op == "Rem": return a - b * int(a / b)
            if op == "Lt": return a < b
            if op == "Le": return a <= b
            if op == "Gt": return a > b
            if op == "Ge": return a >= b
            if op == "Eq": return a == b
            if op == "Ne": return a != b
            if op == "BitAnd": return a & b
            if op == "BitOr": return a | b
        if isinstance(a, bool) or z3.is_bool(a) if is_sym(a) else isinstance(a, bool):
            za = a if is_sym(a) else z3.BoolVal(a)
            zb = b if is_sym(b) else z3.BoolVal(b)
            if op == "Eq": return za == zb
            if op == "Ne": return za != zb
            if op == "BitAnd": return z3.And(za, zb)
            if op == "BitOr": return z3.Or(za, zb)
        za, zb = bv(a), bv(b)
        if op == "Add": return za + zb
        if op == "Sub": return za - zb
        if op == "Mul": return za * zb
        if op == "Lt": return za < zb
        if op == "Le": return za <= zb
        if op == "Gt": return za > zb
        if op == "Ge": return za >= zb
        if op == "Eq": return za == zb
        if op == "Ne": return za != zb
        if op in ("Div", "Rem") and getattr(self, "ctx", {}).get("unsigned_only") and not is_sym(b) and b > 0:
            # only where the caller states that every integer in the body is unsigned (usize)
            return z3.UDiv(za, zb) if op == "Div" else z3.URem(za, zb)
        raise Unmodelled("int op " + op)

    def is_float(self, v):
        if not is_sym(v):
            return False
        return z3.is_real(v) or z3.is_fp(v)

    def binop(self, op, a, b, st):
        if self.is_float(a) or self.is_float(b):
            D = self.dom
            if op == "Add": return D.add(a, b)
            if op == "Sub": return D.sub(a, b)
            if op == "Mul": return D.mul(a, b)
            if op == "Div": return D.div(a, b)
            if op == "Lt": return D.lt(a, b)
            if op == "Le": return D.le(a, b)
            if op == "Gt": return D.lt(b, a)
            if op == "Ge": return D.le(b, a)
            if op == "Eq": return D.eq(a, b)
            if op == "Ne": return z3.Not(D.eq(a, b))
            raise Unmodelled("float op " + op)
        if op.endswith("WithOverflow"):
            base = op[:-12]
            if not is_sym(a) and not is_sym(b):
                r = self.int_bin(base, a, b, st)
                # the type's range is not tracked for concrete ints; usize/isize 64
                return [r, not (I64_MIN <= r <= 2 ** 64 - 1)]
            za, zb = bv(a), bv(b)
            if base == "Add":
                r = za + zb
                ov = z3.Not(z3.And(z3.BVAddNoOverflow(za, zb, True), z3.BVAddNoUnderflow(za, zb)))
            elif base == "Sub":
                r = za - zb
                ov = z3.Not(z3.And(z3.BVSubNoOverflow(za, zb), z3.BVSubNoUnderflow(za, zb, True)))
            else:
                raise Unmodelled("overflow op " + op)
            return [r, ov]
        return self.int_bin(op, a, b, st)

    def _ub(self, st, msg):
        st.events.append(("ub", msg))
        raise UB(msg)

    # ---------------------------------------------------------- rvalues
    def rvalue(self, s, st, d, body):
        s = s.strip()
        if s.startswith("no_retag "):
            s = s[9:]
        m = re.match(r"^(\w+)\((.*)\)$", s)
        if m and m.group(1) in ("Add", "Sub", "Mul", "Div", "Rem", "Lt", "Le", "Gt", "Ge", "Eq", "Ne", "BitAnd", "BitOr",
                                "AddWithOverflow", "SubWithOverflow", "MulWithOverflow", "Shl", "Shr", "Offset"):
            a, b = split_top(m.group(2))
            return self.binop(m.group(1), self.operand(a, st, d), self.operand(b, st, d), st)
        if m and m.group(1) in ("Neg", "Not", "PtrMetadata"):
            v = self.operand(m.group(2), st, d)
            if m.group(1) == "Neg":
                return self.dom.neg(v) if self.is_float(v) else (-v)
            if m.group(1) == "Not":
                return z3.Not(v) if is_sym(v) else (not v)
            if isinstance(v, SliceRef):
                return v.len
            raise Unmodelled("PtrMetadata of %r" % type(v))
        if s.startswith("discriminant("):
            v = self.read_place(s[13:-1], st, d)
            if isinstance(v, Variant):
                return v.idx
            raise Unmodelled("discriminant of %r" % type(v))
        if s.startswith("&raw const ") or s.startswith("&raw mut "):
            p = s.split(" ", 2)[2]
            return self.addr_of(p, st, d)
        if s.startswith("&mut "):
            return self.addr_of(s[5:], st, d)
        if s.startswith("&"):
            return self.addr_of(s[1:], st, d)
        m = re.match(r"^(.*) as (.*?) \((\w+)(?:\(.*\))?\)$", s)
        if m:
            v = self.operand(m.group(1), st, d)
            kind = m.group(3)
            if kind == "FloatToInt":
                return self.dom.to_sbv(v)
            if kind == "IntToFloat":
                if hasattr(self.dom, "from_int_bits"):
                    return self.dom.from_int_bits(v, 32 if m.group(2).strip() == "f32" else 64)
                return self.dom.from_int(v)
            if kind == "FloatToFloat":
                if hasattr(self.dom, "cast_float"):
                    return self.dom.cast_float(v, 32 if m.group(2).strip() == "f32" else 64)
                return v
            if kind in ("IntToInt", "PtrToPtr", "Transmute", "PointerCoercion"):
                return v
            raise Unmodelled("cast " + kind)
        if s.startswith("copy ") or s.startswith("move ") or s.startswith("const "):
            return self.operand(s, st, d)
        # aggregates
        if s.startswith("(") and s.endswith(")"):
            return [self.operand(x, st, d) for x in split_top(s[1:-1])]
        if s.startswith("[") and s.endswith("]"):
            inner = s[1:-1]
            parts = split_top(inner, ";")
            if len(parts) == 2:
                v = self.operand(parts[0], st, d)
                n = self.const(parts[1].replace("const ", "")) if "const" in parts[1] else int(parts[1])
                return [copy_val(v) for _ in range(n)]
            return [self.operand(x, st, d) for x in split_top(inner)]
        m = re.match(r"^([\w:<>, \[\]&';]+?) \{ (.*) \}$", s)
        if m:
            fields = {}
            for f in split_top(m.group(2)):
                k, v = f.split(":", 1)
                fields[k.strip()] = self.operand(v, st, d)
            return Struct(m.group(1), fields)
        m = re.match(r"^([\w:<>, \[\]&';()]+)::(\w+)\((.*)\)$", s)
        if m:
            name = m.group(2)
            idx = {"None": 0, "Some": 1, "Ok": 0, "Err": 1}.get(name, 0)
            return Variant(name, idx, [self.operand(x, st, d) for x in split_top(m.group(3))])
        m = re.match(r"^([\w:<>, \[\]&';()]+)::(None)$", s)
        if m:
            return Variant("None", 0, [])
        raise Unmodelled("rvalue " + s)

    def addr_of(self, p, st, d):
        pp = self.parse_place(p)
        # &(*x) where x is a slice/vec reference: reborrow
        if pp[0] == "deref":
            v = self.loc(pp[1], st, d).get()
            if isinstance(v, (SliceRef, VecObj, Ref)):
                return v
        r = self.loc(pp, st, d)
        return r

    # ---------------------------------------------------------- statements
    def stmt(self, body, s, st, d):
        if s.startswith("StorageLive") or s.startswith("StorageDead") or s.startswith("nop") \
                or s.startswith("FakeRead") or s.startswith("AscribeUserType") or s.startswith("PlaceMention") \
                or s.startswith("Retag") or s.startswith("Coverage"):
            return
        if s.endswith(";"):
            s = s[:-1]
        lhs, rhs = s.split(" = ", 1)
        v = self.rvalue(rhs, st, d, body)
        self.loc(self.parse_place(lhs), st, d).set(v)

    # ---------------------------------------------------------- execution
    def run(self, body, args, st, d=0):
        frame = {}
        if len(st.frames) > d:
            del st.frames[d:]
        st.frames.append(frame)
        for (no, _), a in zip(body.params, args):
            frame[no] = a
        yield from self.exec_from(body, "bb0", st, d)

    def exec_from(self, body, bb, st, d):
        while True:
            st.steps += 1
            if st.steps > self.max_steps:
                raise Unmodelled("step limit")
            stmts, term = body.blocks[bb]
            for s in stmts:
                self.stmt(body, s, st, d)
            t = term.rstrip(";")
            if t == "return":
                ret = st.frames[d].get(0, UNIT)
                yield (st, ret)
                return
            if t in ("unreachable", "resume"):
                st.events.append(("unreachable", bb))
                yield (st, None)
                return
            m = re.match(r"^goto -> (bb\d+)$", t)
            if m:
                bb = m.group(1)
                continue
            m = re.match(r"^drop\(.*\) -> \[return: (bb\d+)", t)
            if m:
                bb = m.group(1)
                continue
            m = re.match(r"^switchInt\((.*)\) -> \[(.*)\]$", t)
            if m:
                v = self.operand(m.group(1), st, d)
                targets = []
                other = None
                for part in split_top(m.group(2)):
                    k, tb = part.split(":")
                    if k.strip() == "otherwise":
                        other = tb.strip()
                    else:
                        targets.append((int(k), tb.strip()))
                if not is_sym(v):
                    iv = int(v)
                    nxt = other
                    for k, tb in targets:
                        if k == iv:
                            nxt = tb
                    bb = nxt
                    continue
                # symbolic: fork
                conds = []
                if z3.is_bool(v):
                    neg = []
                    for k, tb in targets:
                        c = v if k != 0 else z3.Not(v)
                        conds.append((c, tb))
                        neg.append(z3.Not(c))
                    if other is not None:
                        conds.append((z3.And(*neg) if len(neg) > 1 else neg[0], other))
                else:
                    neg = []
                    for k, tb in targets:
                        c = v == z3.BitVecVal(k, v.size())
                        conds.append((c, tb))
                        neg.append(z3.Not(c))
                    if other is not None:
                        conds.append((z3.And(*neg) if len(neg) > 1 else neg[0], other))
                feas = [(c, tb) for c, tb in conds if self.feasible(st.pc + [c])]
                if len(feas) == 1:
                    st.pc.append(feas[0][0])
                    bb = feas[0][1]
                    continue
                for c, tb in feas:
                    st2 = st.fork(c)
                    yield from self.exec_from(body, tb, st2, d)
                return
            m = re.match(r"^assert\((!?)(.*?), \"(.*?)\".*\) -> \[success: (bb\d+)", t)
            if m:
                v = self.operand(m.group(2), st, d)
                if m.group(1) == "!":
                    v = z3.Not(v) if is_sym(v) else (not v)
                if not is_sym(v):
                    if v:
                        bb = m.group(4)
                        continue
                    st.events.append(("panic", m.group(3)))
                    yield (st, None)
                    return
                if self.feasible(st.pc + [z3.Not(v)]):
                    st2 = st.fork(z3.Not(v))
                    st2.events.append(("panic", m.group(3)))
                    yield (st2, None)
                st.pc.append(v)
                bb = m.group(4)
                continue
            # call
            m = re.match(r"^(.*?) = (.*) -> \[return: (bb\d+).*\]$", t)
            if m:
                dest, callexpr, nxt = m.group(1), m.group(2), m.group(3)
                # callee(args): args are the last top-level parenthesis group
                depth = 0
                for i in range(len(callexpr) - 1, -1, -1):
                    if callexpr[i] == ")":
                        depth += 1
                    elif callexpr[i] == "(":
                        depth -= 1
                        if depth == 0:
                            break
                callee = callexpr[:i].strip()
                args = [self.operand(a, st, d) for a in split_top(callexpr[i + 1:-1])]
                self.callees_seen.add(re.sub(r"<impl at [^>]*>", "<impl>", callee))
                handled, res = self.builtin(callee, args, st)
                if handled:
                    self.loc(self.parse_place(dest), st, d).set(res)
                    bb = nxt
                    continue
                target = self.resolver(callee, args) if self.resolver else None
                if target is None:
                    raise Unmodelled("callee " + callee)
                for st2, ret in self.run(target, args, st, d + 1):
                    if ret is None and any(e[0] in ("panic", "ub") for e in st2.events):
                        del st2.frames[d + 1:]
                        yield (st2, None)
                        continue
                    del st2.frames[d + 1:]
                    self.loc(self.parse_place(dest), st2, d).set(ret)
                    yield from self.exec_from(body, nxt, st2, d)
                return
            raise Unmodelled("terminator " + t)

    # ---------------------------------------------------------- builtins
    def builtin(self, callee, args, st):
        from . import models
        return models.call(self, callee, args, st)


def copy_val(v):
    """Copy semantics for aggregates (lists); references stay shared."""
    if isinstance(v, list):
        return [copy_val(x) for x in v]
    if isinstance(v, Variant):
        return Variant(v.name, v.idx, [copy_val(x) for x in v.fields])
    if isinstance(v, Struct):
        f = v.fields
        return Struct(v.name, {k: copy_val(x) for k, x in f.items()} if isinstance(f, dict) else [copy_val(x) for x in f])
    return v
