"""C12 cross-check (Engine M, IEEE-754 bit-precise): the acceptance predicate
of set_resample_ratio on the four asynchronous resamplers, decided on the MIR
of the setters themselves. Second, independent encoding of what the Kani
harnesses c12_abs_* decide; the two engines must agree."""
import re, time, struct, os
import z3
from .interp import Interp, FPDom, State, Ref, Struct, Variant, Unmodelled, UB

TYPES = [
    ("FastFixedIn", "src/asynchro_fast.rs", r"^asynchro_fast::<impl>::set_resample_ratio$", r"&mut FastFixedIn<T>"),
    ("FastFixedOut", "src/asynchro_fast.rs", r"^asynchro_fast::<impl>::set_resample_ratio$", r"&mut FastFixedOut<T>"),
    ("SincFixedIn", "src/asynchro_sinc.rs", r"^asynchro_sinc::<impl>::set_resample_ratio$", r"&mut SincFixedIn<T>"),
    ("SincFixedOut", "src/asynchro_sinc.rs", r"^asynchro_sinc::<impl>::set_resample_ratio$", r"&mut SincFixedOut<T>"),
]


class RelInterp(Interp):
    """Relative setter: the inner call to the absolute setter is cut and answers Ok(()) - its own
    acceptance predicate is the separate obligation C12.setter_predicate.<type>; whether the clamped
    product lies inside it is decided by the Kani harnesses c12_rel_*_a / c12_rel_as_abs_* (the
    full-width FP query for it did not finish in z3 within 600 s)."""
    def builtin(self, callee, args, st):
        if re.sub(r"<impl at [^>]*>", "<impl>", callee).endswith("::set_resample_ratio"):
            self.models_used.add("inner set_resample_ratio cut: answers Ok(()) (decided by C12.setter_predicate.*)")
            return True, Variant("Ok", 0, [()])
        return super().builtin(callee, args, st)


def struct_fields(repo, path, name):
    src = open(repo + "/" + path).read()
    m = re.search(r"pub struct %s<T> \{(.*?)\n\}" % name, src, re.S)
    fields = []
    for l in m.group(1).splitlines():
        fm = re.match(r"^\s*(?:pub )?(\w+):", l)
        if fm:
            fields.append(fm.group(1))
    return fields


def fbits(v):
    bits = z3.simplify(z3.fpToIEEEBV(v)).as_long()
    return struct.unpack("<d", struct.pack("<Q", bits))[0], hex(bits)


def check(prog, tier="quick", repo=None):
    repo = repo or os.environ.get("RV_REPO", "/repo")
    from concurrent.futures import ProcessPoolExecutor
    obs, models = [], set()
    with ProcessPoolExecutor(max_workers=8) as ex:
        for o, m in ex.map(_one, [(prog.path, i, repo, mode) for mode in ("abs", "rel") for i in range(len(TYPES))]):
            obs += o
            models |= set(m)
    return obs, sorted(models)


def _one(arg):
    path, i, repo, mode = arg
    from .mir import Program
    return check_types(Program(path), [TYPES[i]], repo, mode)


def check_types(prog, types, repo="/repo", mode="abs"):
    """mode "abs": set_resample_ratio; mode "rel": set_resample_ratio_relative (the body of the
    relative setter, with its inner call resolved to the same type's absolute setter)."""
    obs = []
    models = set()
    F = z3.Float64()
    for tname, path, nre, pre in types:
        t0 = time.time()
        ob = dict(id=("C12.setter_predicate." if mode == "abs" else "C12.relative_predicate.") + tname, region="base", kind="obligation", function=None, verdict=None, detail="")
        try:
            abs_body = prog.one(nre, [pre])
            body = abs_body if mode == "abs" else prog.one(nre.replace("set_resample_ratio$", "set_resample_ratio_relative$"), [pre])
            ob["function"] = body.short() + " (" + tname + ")"
            fields = struct_fields(repo, path, tname)
            orig, mx, r = z3.FP("orig", F), z3.FP("max", F), z3.FP("r", F)
            cur, tgt, li = z3.FP("cur", F), z3.FP("tgt", F), z3.FP("last_index", F)
            ramp = z3.Bool("ramp")
            vals = []
            for f in fields:
                vals.append({"resample_ratio_original": orig, "max_relative_ratio": mx, "resample_ratio": cur,
                             "target_ratio": tgt, "last_index": li, "chunk_size": 3, "max_chunk_size": 3,
                             "needed_input_size": 7, "current_buffer_fill": 7, "nbr_channels": 1,
                             # Box<dyn SincInterpolator>: Box.0 = Unique, Unique.0 = NonNull -> the object
                             "interpolator": [[Ref(["dyn SincInterpolator object"], 0)]]}.get(f, "opaque:" + f))
            me = Struct(tname, vals)
            def resolver(callee, args):
                c = re.sub(r"<impl at [^>]*>", "<impl>", callee)
                if c.endswith("update_needed_len"):
                    return prog.one(r"update_needed_len$")
                return None
            I = (Interp if mode == "abs" else RelInterp)(prog, FPDom(64), resolver=resolver)
            I.ctx = {"sinc_len": 8}
            st = State()
            lim = lambda x: z3.FPVal(x, F)
            st.pc += [z3.fpGEQ(orig, lim(2.0 ** -10)), z3.fpLEQ(orig, lim(2.0 ** 10)), z3.fpGEQ(mx, lim(1.0)), z3.fpLEQ(mx, lim(2.0 ** 10)),
                      z3.fpGEQ(cur, lim(2.0 ** -20)), z3.fpLEQ(cur, lim(2.0 ** 20)), z3.fpGEQ(tgt, lim(2.0 ** -20)), z3.fpLEQ(tgt, lim(2.0 ** 20)),
                      z3.fpGEQ(li, lim(-64.0)), z3.fpLEQ(li, lim(64.0))]
            holder = [me]
            leaves = list(I.run(body, [Ref(holder, 0), r, ramp], st))
            models |= I.models_used
            rm = z3.RNE()
            if mode == "abs":
                spec = z3.And(z3.fpLEQ(z3.fpDiv(rm, orig, mx), r), z3.fpLEQ(r, z3.fpMul(rm, orig, mx)))
            else:
                spec = z3.And(z3.fpLEQ(z3.fpDiv(rm, z3.FPVal(1.0, F), mx), r), z3.fpLEQ(r, mx))
            bad = None
            n_ok = n_err = 0
            for s2, ret in leaves:
                if ret is None:
                    # overflow/cast panics inside the accepted path are C03 matter, not this predicate
                    continue
                isok = isinstance(ret, Variant) and ret.name == "Ok"
                n_ok += isok
                n_err += (not isok)
                q = z3.Solver()
                q.set("timeout", 600000)
                q.add(*s2.pc)
                q.add(z3.Not(spec) if isok else spec)
                res = q.check()
                if res == z3.sat:
                    bad = (isok, q.model())
                    break
                if res != z3.unsat:
                    ob["verdict"] = "inconclusive"
                    ob["detail"] = "z3 unknown"
                if not isok:
                    # rejected: ratio fields untouched, payload = (r, orig, max)
                    now = s2.frames[0][1].get() if isinstance(s2.frames[0][1], Ref) else None
                    st_obj = s2.frames[0][1].c[0]
                    fi = {f: i for i, f in enumerate(fields)}
                    same = (st_obj.fields[fi["resample_ratio"]] is cur or z3.eq(st_obj.fields[fi["resample_ratio"]], cur)) and \
                           z3.eq(st_obj.fields[fi["target_ratio"]], tgt)
                    err = ret.fields[0]
                    pay = mode == "rel" or isinstance(err, Struct) and z3.eq(err.fields["provided"], r) and z3.eq(err.fields["original"], orig) \
                        and z3.eq(err.fields["max_relative_ratio"], mx)
                    if not same:
                        ob["verdict"] = "violated"
                        ob["detail"] = "rejected call modified the ratio state"
                    if not pay:
                        ob["verdict"] = "violated"
                        ob["detail"] = "RatioOutOfBounds payload is not (provided, original, max)"
            ob["paths"] = dict(ok=n_ok, err=n_err)
            if bad is not None:
                isok, m = bad
                ob["verdict"] = "violated"
                rv, rb = fbits(m.eval(r, model_completion=True))
                ov, obits = fbits(m.eval(orig, model_completion=True))
                mv, mb = fbits(m.eval(mx, model_completion=True))
                ob["model"] = dict(r=rv, r_bits=rb, orig=ov, orig_bits=obits, max=mv, max_bits=mb,
                                   kind="accepted outside the documented range" if isok else "rejected inside the documented range")
            elif ob["verdict"] is None:
                ob["verdict"] = "holds"
        except (Unmodelled, UB, LookupError, KeyError) as e:
            ob["verdict"] = "inconclusive"
            ob["detail"] = "%s: %s" % (type(e).__name__, e)
        ob["solver_s"] = round(time.time() - t0, 2)
        obs.append(ob)
    return obs, sorted(models)


if __name__ == "__main__":
    import json
    from .mir import dump_mir, Program
    path, key = dump_mir()
    prog = Program(path)
    obs, models = check(prog)
    for o in obs:
        print(json.dumps(o, default=str)[:700])
    print(models)
