"""C14, synchronous types (Engine M): output_delay() of FftFixedIn / FftFixedOut / FftFixedInOut
returns half the FFT output block for EVERY value of the size fields (64-bit bit-vectors), decided
on the MIR of the three getters (dump built with the fft_resampler feature).

This is relative to the lemma L_fft: the overlap-add stage applies a linear-phase filter of
fft_size_in taps centred at fft_size_in/2, so the stream delay is fft_size_out/2 output frames
whatever the chunk size / number of sub-chunks. L_fft is not decided here (the real FFT is outside
what the engines reach); a counterexample is replayed natively by an impulse experiment on the real
resamplers (kani/examples/mdelay.rs), which measures the delay itself."""
import re, time, os
import z3
from .interp import Interp, FPDom, State, Ref, Struct, Unmodelled, UB
from .setter import struct_fields

TYPES = [("FftFixedIn", "fft_size_out"), ("FftFixedOut", "fft_size_out"), ("FftFixedInOut", "chunk_size_out")]
USIZE_FIELDS = ("nbr_channels", "chunk_size_in", "chunk_size_out", "fft_size_in", "fft_size_out", "saved_frames", "frames_needed")


def check(tier="quick", repo=None):
    from .mir import dump_mir, Program
    repo = repo or os.environ.get("RV_REPO", "/repo")
    path, key = dump_mir(repo=repo, scratch=os.path.join(os.environ.get("RV_SCRATCH", "/var/tmp/rvh"), "mir"), features_default=True)
    prog = Program(path)
    obs, models = [], set()
    for tname, block in TYPES:
        t0 = time.time()
        ob = dict(id="C14.delay_report." + tname, region="base", kind="obligation", function=None, verdict=None, detail="",
                  cfg=dict(type=tname, block_field=block, domain="every 64-bit value of every usize field"))
        try:
            body = prog.one(r"^synchro::<impl>::output_delay$", [r"&%s<T>" % tname])
            ob["function"] = body.short() + " (" + tname + ")"
            fields = struct_fields(repo, "src/synchro.rs", tname)
            sym = {f: z3.BitVec(f, 64) for f in fields if f in USIZE_FIELDS}
            if block not in sym:
                raise LookupError("field %s not found in %s" % (block, tname))
            me = Struct(tname, [sym.get(f, "opaque:" + f) for f in fields])
            I = Interp(prog, FPDom(64))
            I.ctx = {"unsigned_only": True}
            leaves = list(I.run(body, [Ref([me], 0)], State()))
            models |= I.models_used
            want = z3.UDiv(sym[block], z3.BitVecVal(2, 64))
            n = 0
            for s2, ret in leaves:
                q = z3.Solver()
                q.set("timeout", 60000)
                q.add(*s2.pc)
                if ret is None:
                    # a panicking path must be infeasible
                    res = q.check()
                    if res == z3.sat:
                        ob["verdict"], ob["detail"] = "violated", "output_delay() can panic"
                    elif res != z3.unsat:
                        ob["verdict"], ob["detail"] = "inconclusive", "z3 unknown"
                    continue
                n += 1
                rv = ret if z3.is_expr(ret) else z3.BitVecVal(ret, 64)
                q.add(rv != want)
                res = q.check()
                if res == z3.sat:
                    m = q.model()
                    ob["verdict"] = "violated"
                    ob["model"] = {f: m.eval(v, model_completion=True).as_long() for f, v in sym.items()}
                    ob["model"]["returned"] = m.eval(rv, model_completion=True).as_long()
                    ob["detail"] = "output_delay() differs from %s/2" % block
                    break
                if res != z3.unsat:
                    ob["verdict"], ob["detail"] = "inconclusive", "z3 unknown"
            ob["paths"] = dict(returning=n, total=len(leaves))
            if n == 0 and ob["verdict"] is None:
                ob["verdict"], ob["detail"] = "inconclusive", "no returning path"
            if ob["verdict"] is None:
                ob["verdict"] = "holds"
        except (Unmodelled, UB, LookupError, KeyError, AttributeError) as e:
            ob["verdict"] = "inconclusive"
            ob["detail"] = "%s: %s" % (type(e).__name__, e)
        ob["solver_s"] = round(time.time() - t0, 3)
        obs.append(ob)
    return obs, sorted(models), dict(fft_mir_dump=os.path.basename(path), fft_mir_source_key=key)


if __name__ == "__main__":
    import json, sys
    obs, models, meta = check(repo=sys.argv[1] if len(sys.argv) > 1 else None)
    for o in obs:
        print(json.dumps(o, default=str)[:600])
    print(models, meta)
