"""C15: SIMD kernels == scalar kernel == plain dot product over the reals,
exact read footprint, on the MIR of the real kernels."""
import time, re, itertools
import z3
from .mir import Program
from .interp import Interp, RealDom, State, SliceRef, VecObj, Struct, Ref, Unmodelled, UB
from .c08 import cvc5_check

KERNELS = [
    ("avx.f32", r"^sinc_interpolator_avx::<impl>::", [r"^&\[f32\]$"], r"^Vec<Vec<f32>>$"),
    ("avx.f64", r"^sinc_interpolator_avx::<impl>::", [r"^&\[f64\]$"], r"^Vec<Vec<f64>>$"),
    ("sse.f32", r"^sinc_interpolator_sse::<impl>::", [r"^&\[f32\]$"], r"^Vec<Vec<f32>>$"),
    ("sse.f64", r"^sinc_interpolator_sse::<impl>::", [r"^&\[f64\]$"], r"^Vec<Vec<f64>>$"),
]


def sym_table(f, L):
    return [[z3.Real("s_%d_%d" % (a, p)) for p in range(L)] for a in range(f)]


def sym_wave(n):
    return [z3.Real("w_%d" % i) for i in range(n)]


def dot(wave, index, row):
    acc = z3.RealVal(0)
    for p, s in enumerate(row):
        acc = acc + wave[index + p] * s
    return acc


def decide(neq, label):
    """z3 + cvc5 on one negated identity."""
    s = z3.Solver()
    s.add(neq)
    r = str(s.check())
    c = cvc5_check("(set-logic QF_NRA)\n" + s.to_smt2(), timeout=60)
    return r, c


def run_simd(prog, label, mod_re, wave_re, tab_re, L, f, index, sub, extra):
    pack = prog.one(mod_re + r"pack_sincs$", [tab_re])
    kern = prog.one(mod_re + r"get_sinc_interpolated_unsafe$", wave_re)
    table = sym_table(f, L)
    I = Interp(prog, RealDom())
    st = State()
    tv = VecObj([VecObj(list(r), tag="sinc_table") for r in table], tag="sinc_rows")
    leaves = list(I.run(pack, [tv], st))
    assert len(leaves) == 1, "pack_sincs forked"
    st, packed = leaves[0]
    if packed is None:
        raise UB("pack_sincs: %s" % st.events)
    table_reads = sorted(set(st.reads))
    n = index + L + 1 + extra
    wave = sym_wave(n)
    st2 = State()
    from .models import as_slice
    leaves = list(I.run(kern, [SliceRef(wave, 0, n, "wave"), index, sub, as_slice(packed), L], st2))
    assert len(leaves) == 1, "kernel forked"
    st2, res = leaves[0]
    if res is None:
        raise UB("kernel: %s" % st2.events)
    want = dot(wave, index, table[sub])
    foot = sorted(set(i for t, i in st2.reads if t == "wave"))
    return I, res, want, foot, st2.events, (pack.short(), kern.short()), table_reads


def run_scalar(prog, L, f, index, sub, extra):
    body = prog.one(r"^sinc_interpolator::<impl>::get_sinc_interpolated$", [r"ScalarInterpolator<T>"])
    table = sym_table(f, L)
    I = Interp(prog, RealDom())
    st = State()
    me = Struct("ScalarInterpolator", [VecObj([VecObj(list(r), tag="sinc_table") for r in table]), L, f])
    n = index + L + 1 + extra
    wave = sym_wave(n)
    leaves = list(I.run(body, [Ref([me], 0), SliceRef(wave, 0, n, "wave"), index, sub], st))
    assert len(leaves) == 1, "scalar kernel forked"
    st, res = leaves[0]
    if res is None:
        raise UB("scalar kernel: %s" % st.events)
    want = dot(wave, index, table[sub])
    foot = sorted(set(i for t, i in st.reads if t == "wave"))
    return I, res, want, foot, st.events, (body.short(),)


def check(prog, tier="quick"):
    obs = []
    lens = [8, 16, 24, 32, 40] if tier == "thorough" else [8, 16, 24]
    idxs = [0, 1, 5] if tier == "thorough" else [0, 5]
    models = set()
    for L in lens:
        for f in ([1, 2, 3] if tier == "thorough" else [1, 3]):
            for index in idxs:
                for sub in sorted(set([0, f - 1])):
                    for extra in ([0, 3] if tier == "thorough" else [0]):
                        cfg = dict(len=L, nbr_sincs=f, index=index, subindex=sub, wave_len=index + L + 1 + extra)
                        runs = []
                        try:
                            I, res, want, foot, ev, fn = run_scalar(prog, L, f, index, sub, extra)
                            runs.append(("scalar", I, res, want, foot, ev, fn))
                        except (Unmodelled, UB, LookupError, AssertionError) as e:
                            obs.append(dict(id="C15.value.scalar", cfg=cfg, verdict="inconclusive", detail=repr(e)))
                        for label, mod_re, wave_re, tab_re in KERNELS:
                            try:
                                I, res, want, foot, ev, fn, _ = run_simd(prog, label, mod_re, wave_re, tab_re, L, f, index, sub, extra)
                                runs.append((label, I, res, want, foot, ev, fn))
                            except (Unmodelled, UB, LookupError, AssertionError) as e:
                                obs.append(dict(id="C15.value." + label, cfg=cfg, verdict="violated" if isinstance(e, UB) else "inconclusive",
                                                detail=repr(e)))
                        for label, I, res, want, foot, ev, fn in runs:
                            t0 = time.time()
                            models |= I.models_used
                            r, c = decide(res != want, label)
                            v = "holds" if r == "unsat" and c in ("unsat",) else ("violated" if r == "sat" else "inconclusive")
                            if r == "unsat" and c not in ("unsat", "sat"):
                                v = "holds"
                            if r == "unsat" and c == "sat":
                                v = "inconclusive"
                            obs.append(dict(id="C15.value." + label, cfg=cfg, functions=list(fn), z3=r, cvc5=c, verdict=v,
                                            solver_s=round(time.time() - t0, 3)))
                            exp = list(range(index, index + L))
                            obs.append(dict(id="C15.footprint." + label, cfg=cfg, functions=list(fn),
                                            verdict="holds" if foot == exp and not ev else "violated",
                                            detail="" if foot == exp and not ev else "read set %s events %s" % (foot, ev), solver_s=0.0))
    return obs, sorted(models)


if __name__ == "__main__":
    import json, sys
    from .mir import dump_mir
    path, key = dump_mir()
    prog = Program(path)
    obs, models = check(prog, sys.argv[1] if len(sys.argv) > 1 else "quick")
    bad = [o for o in obs if o["verdict"] != "holds"]
    print(len(obs), "obligations;", len(bad), "not holding")
    for o in bad[:10]:
        print(json.dumps(o)[:600])
    print(models)
