"""C15.dispatch: whichever kernel the run-time CPU dispatch selects is built
from the same table — data-flow over symbolic arguments on the MIR of
`make_interpolator` and of the three `::new` constructors: the argument
tuples reaching `make_sincs` are identical terms."""
import re, time
import z3
from .interp import Interp, RealDom, State, Ref, SliceRef, VecObj, Variant, Struct, Unmodelled, UB
from . import models


class Opaque:
    def __init__(self, name):
        self.name = name

    def __repr__(self):
        return "<%s>" % self.name


class DInterp(Interp):
    """Interpreter with recording models for the callees of interest."""

    def __init__(self, prog, feature_missing=False):
        super().__init__(prog, RealDom(), resolver=None)
        self.calls = []       # (callee, args)
        self.feature_missing = feature_missing

    def const(self, s, hint=None):
        s = s.strip()
        if s.startswith("{alloc"):
            return Ref([SliceRef([Opaque("CpuFeature0"), Opaque("CpuFeature1")], 0, 2)], 0)
        if s.startswith('"'):
            return Opaque("str")
        return super().const(s, hint)

    def rvalue(self, s, st, d, body):
        s2 = s.strip()
        if s2.startswith("{closure@"):
            return Opaque("closure")
        m = re.match(r"^(MissingCpuFeature)\((.*)\)$", s2)
        if m:
            return Struct("MissingCpuFeature", [self.operand(m.group(2), st, d)])
        return super().rvalue(s, st, d, body)

    def builtin(self, callee, args, st):
        c = re.sub(r"<impl at [^>]*>", "<impl>", callee)
        if re.search(r"Iterator>::find::<", c):
            self.models_used.add("Iterator::find over FEATURES -> %s" % ("Some(feature missing)" if self.feature_missing else "None (all detected)"))
            if self.feature_missing:
                return True, Variant("Some", 1, [Ref([Opaque("CpuFeature0")], 0)])
            return True, Variant("None", 0, [])
        if re.match(r"^make_sincs::<T>$", c):
            self.models_used.add("make_sincs -> recorded, returns an opaque table")
            self.calls.append(("make_sincs", list(args)))
            return True, VecObj([], tag="table")
        if re.search(r"(Avx|Sse|Neon)Sample>::pack_sincs$", c):
            self.models_used.add("pack_sincs -> opaque (decided separately by C15.value)")
            return True, Opaque("packed")
        m = re.match(r"^(AvxInterpolator|SseInterpolator|ScalarInterpolator)::<T>::new$", c)
        if m:
            self.models_used.add("%s::new -> recorded; Avx/Sse report a missing feature so that every branch of the dispatch is visited" % m.group(1))
            self.calls.append((m.group(1) + "::new", list(args)))
            if m.group(1) == "ScalarInterpolator":
                return True, Opaque("scalar")
            return True, Variant("Err", 1, [Opaque("missing")])
        if re.match(r"^Box::<.*>::new$", c):
            self.models_used.add("Box::new identity")
            return True, args[0]
        if c.startswith("Arguments::<") or c == "panic_fmt":
            raise UB("panic path")
        if re.match(r"^std::f32::<impl f32>::ceil$", c):
            v = z3.simplify(args[0])
            if z3.is_rational_value(v):
                import math
                q = v.as_fraction()
                self.models_used.add("f32::ceil on a concrete rational")
                return True, z3.RealVal(math.ceil(q))
            raise Unmodelled("ceil of a symbolic real")
        return models.call(self, callee, args, st)


def same(a, b):
    if isinstance(a, Opaque) or isinstance(b, Opaque):
        return a is b
    if z3.is_expr(a) and z3.is_expr(b):
        return z3.eq(z3.simplify(a), z3.simplify(b))
    return a == b


def check(prog):
    obs = []
    used = set()
    fc = z3.Real("f_cutoff")
    win = Opaque("window")
    # --- the three constructors pass their own arguments through unchanged
    ctors = [("avx", r"^sinc_interpolator_avx::<impl>::new$"), ("sse", r"^sinc_interpolator_sse::<impl>::new$"),
             ("scalar", r"^sinc_interpolator::<impl>::new$")]
    tuples = {}
    for label, nre in ctors:
        t0 = time.time()
        ob = dict(id="C15.dispatch.table_args." + label, function=None, verdict=None, detail="", region="base", kind="obligation")
        try:
            body = [b for b in prog.find(nre) if len(b.params) == 4][0]
            ob["function"] = body.short()
            ok = True
            for L, f in ((8, 1), (16, 3), (24, 2)):
                I = DInterp(prog)
                st = State()
                leaves = list(I.run(body, [L, f, fc, win], st))
                used |= I.models_used
                ms = [c for c in I.calls if c[0] == "make_sincs"]
                if len(leaves) != 1 or len(ms) != 1:
                    ok = False
                    ob["detail"] = "expected one path and one make_sincs call, got %d / %d" % (len(leaves), len(ms))
                    break
                a = ms[0][1]
                if not (a[0] == L and a[1] == f and same(a[2], fc) and a[3] is win):
                    ok = False
                    ob["detail"] = "make_sincs receives %r for constructor arguments (%d, %d, f_cutoff, window)" % (a, L, f)
                    break
                tuples[(label, L, f)] = a
            ob["verdict"] = "holds" if ok else "violated"
        except (Unmodelled, LookupError, IndexError) as e:
            ob["verdict"] = "inconclusive"
            ob["detail"] = "%s: %s" % (type(e).__name__, e)
        except UB as e:
            ob["verdict"] = "violated"
            ob["detail"] = "UB/panic on the construction path: %s" % e
        ob["solver_s"] = round(time.time() - t0, 3)
        obs.append(ob)
    # --- make_interpolator hands the same tuple to every candidate kernel
    t0 = time.time()
    ob = dict(id="C15.dispatch.make_interpolator", function=None, verdict=None, detail="", region="base", kind="obligation")
    try:
        body = prog.one(r"^make_interpolator$")
        ob["function"] = body.short()
        ok = True
        for sinc_len in (8, 20, 64):
            for ratio_ge_1 in (True, False):
                I = DInterp(prog)
                st = State()
                ratio = z3.Real("resample_ratio")
                st.pc.append(ratio >= 1 if ratio_ge_1 else z3.And(ratio > 0, ratio < 1))
                leaves = list(I.run(body, [sinc_len, ratio, fc, 4, win], st))
                used |= I.models_used
                news = [c for c in I.calls if c[0].endswith("::new")]
                names = [c[0] for c in news]
                if len(leaves) != 1 or names != ["AvxInterpolator::new", "SseInterpolator::new", "ScalarInterpolator::new"]:
                    ok = False
                    ob["detail"] = "paths %d, constructor calls %s" % (len(leaves), names)
                    break
                a0 = news[0][1]
                for c in news[1:]:
                    if not all(same(x, y) for x, y in zip(a0, c[1])):
                        ok = False
                        ob["detail"] = "candidate kernels receive different arguments: %r vs %r" % (a0, c[1])
                if a0[0] % 8 != 0 or a0[0] < sinc_len or a0[0] >= sinc_len + 8:
                    ok = False
                    ob["detail"] = "sinc_len %d rounded to %r" % (sinc_len, a0[0])
            if not ok:
                break
        ob["verdict"] = "holds" if ok else "violated"
    except (Unmodelled, LookupError) as e:
        ob["verdict"] = "inconclusive"
        ob["detail"] = "%s: %s" % (type(e).__name__, e)
    except UB as e:
        ob["verdict"] = "violated"
        ob["detail"] = "UB/panic: %s" % e
    ob["solver_s"] = round(time.time() - t0, 3)
    obs.append(ob)
    return obs, sorted(used)


if __name__ == "__main__":
    import json
    from .mir import dump_mir, Program
    path, key = dump_mir()
    prog = Program(path)
    obs, used = check(prog)
    for o in obs:
        print(json.dumps(o, default=str))
    print(used)
