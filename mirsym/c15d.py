"""C15.dispatch (placeholder until the data-flow check of the constructors lands)."""


def check(prog):
    return [], []
