"""C08(a): the coefficient tables of the polynomial interpolators, decided over
the reals on the MIR of the real functions."""
import time, subprocess, tempfile, os, re
from fractions import Fraction
import z3
from .mir import Program
from .interp import Interp, RealDom, State, SliceRef, Unmodelled, UB

# (name regex, param type regexes, nodes as documented in the source, degree)
TARGETS = [
    ("fast.septic", r"^interp_septic$", [r"^T$", r"^&\[T\]$"], list(range(-3, 5)), 7),
    ("fast.quintic", r"^interp_quintic$", [r"^T$", r"^&\[T\]$"], list(range(-2, 4)), 5),
    ("fast.cubic", r"^asynchro_fast::interp_cubic$", [r"^T$", r"^&\[T\]$"], [-1, 0, 1, 2], 3),
    ("fast.linear", r"^asynchro_fast::interp_lin$", [r"^T$", r"^&\[T\]$"], [0, 1], 1),
    ("sinc.cubic", r"^asynchro_sinc::interp_cubic$", [r"^T$", r"^&\[T; 4\]$"], [-1, 0, 1, 2], 3),
    ("sinc.quadratic", r"^interp_quad$", [r"^T$", r"^&\[T; 3\]$"], [0, 1, 2], 2),
    ("sinc.linear", r"^asynchro_sinc::interp_lin$", [r"^T$", r"^&\[T; 2\]$"], [0, 1], 1),
]


def horner(coeffs, t):
    acc = coeffs[-1]
    for c in reversed(coeffs[:-1]):
        acc = acc * t + c
    return acc


def run_body(prog, body, x, yvals):
    I = Interp(prog, RealDom())
    st = State()
    lst = list(yvals)
    leaves = list(I.run(body, [x, SliceRef(lst, 0, len(lst), "yvals")], st))
    return I, leaves


def cvc5_check(smt2, timeout=60):
    with tempfile.NamedTemporaryFile("w", suffix=".smt2", delete=False) as f:
        f.write(smt2)
        p = f.name
    try:
        r = subprocess.run(["cvc5", "--lang", "smt2", "--tlimit=%d" % (timeout * 1000), p], capture_output=True, text=True, timeout=timeout + 10)
        out = (r.stdout + r.stderr).strip()
    except subprocess.TimeoutExpired:
        out = "timeout"
    finally:
        os.unlink(p)
    if "(error" in out or "error" in out.lower() and "unsat" not in out:
        return "error: " + out[:200]
    first = out.splitlines()[0] if out else "none"
    return first


def check(prog, validate_vectors=True):
    """-> list of obligation dicts"""
    obs = []
    for label, nre, pres, nodes, deg in TARGETS:
        t0 = time.time()
        ob = dict(id="C08.table." + label, function=None, verdict=None, detail="", solver_s=0.0)
        try:
            body = prog.one(nre, pres)
            ob["function"] = body.short()
            x = z3.Real("x")
            cs = [z3.Real("c%d" % i) for i in range(deg + 1)]
            yv = [horner(cs, z3.RealVal(n)) for n in nodes]
            I, leaves = run_body(prog, body, x, yv)
            bad = [l for l in leaves if l[1] is None]
            if bad or len(leaves) != 1:
                ob["verdict"] = "inconclusive"
                ob["detail"] = "unexpected paths: %s" % [l[0].events for l in leaves][:3]
                obs.append(ob)
                continue
            st, res = leaves[0]
            ob["reads"] = sorted(set(st.reads))
            ob["models_used"] = sorted(I.models_used)
            s = z3.Solver()
            s.add(res != horner(cs, x))
            r = s.check()
            ob["z3"] = str(r)
            if r == z3.sat:
                m = s.model()
                ob["verdict"] = "violated"
                ob["model"] = {str(d): str(m[d]) for d in m.decls()}
            elif r == z3.unsat:
                # cross-check with cvc5: basis polynomials (univariate) + linearity in the samples
                cv = []
                for j in range(deg + 1):
                    yj = [z3.RealVal(Fraction(n) ** j) for n in nodes]
                    _, lv = run_body(prog, body, x, yj)
                    s2 = z3.Solver()
                    xp = z3.RealVal(1)
                    for _ in range(j):
                        xp = xp * x
                    s2.add(lv[0][1] != xp)
                    cv.append(cvc5_check("(set-logic QF_NRA)\n" + s2.to_smt2()))
                ys = [z3.Real("y%d" % i) for i in range(len(nodes))]
                zs = [z3.Real("z%d" % i) for i in range(len(nodes))]
                a = z3.Real("a")
                _, l1 = run_body(prog, body, x, ys)
                _, l2 = run_body(prog, body, x, zs)
                _, l3 = run_body(prog, body, x, [a * y + z for y, z in zip(ys, zs)])
                s3 = z3.Solver()
                s3.add(l3[0][1] != a * l1[0][1] + l2[0][1])
                lin_z3 = str(s3.check())
                lin_cv = cvc5_check("(set-logic QF_NRA)\n" + s3.to_smt2())
                ob["cvc5_basis"] = cv
                ob["linearity"] = dict(z3=lin_z3, cvc5=lin_cv)
                if all(c == "unsat" for c in cv) and lin_z3 == "unsat" and lin_cv in ("unsat", "unknown", "timeout"):
                    ob["verdict"] = "holds"
                    if lin_cv != "unsat":
                        ob["detail"] = "cvc5 did not decide the linearity query (%s); z3 did" % lin_cv
                elif any(c == "sat" for c in cv) or lin_cv == "sat":
                    ob["verdict"] = "inconclusive"
                    ob["detail"] = "solver disagreement z3 unsat / cvc5 %s %s" % (cv, lin_cv)
                else:
                    ob["verdict"] = "holds"
                    ob["detail"] = "cvc5 basis results: %s" % cv
            else:
                ob["verdict"] = "inconclusive"
                ob["detail"] = "z3 unknown"
        except (Unmodelled, UB, LookupError) as e:
            ob["verdict"] = "inconclusive"
            ob["detail"] = "%s: %s" % (type(e).__name__, e)
        ob["solver_s"] = round(time.time() - t0, 3)
        obs.append(ob)
    return obs


def validate_translator(prog):
    """Serval-style: push rubato's own unit-test vectors through the encoding."""
    res = []
    cases = [
        ("asynchro_sinc::interp_cubic", r"^asynchro_sinc::interp_cubic$", [r"^T$", r"^&\[T; 4\]$"], 0.5, [0.0, 2.0, 4.0, 6.0], 3.0),
        ("asynchro_sinc::interp_lin", r"^asynchro_sinc::interp_lin$", [r"^T$", r"^&\[T; 2\]$"], 0.25, [1.0, 5.0], 2.0),
    ]
    for name, nre, pres, x, ys, want in cases:
        body = prog.one(nre, pres)
        _, leaves = run_body(prog, body, z3.RealVal(Fraction(x)), [z3.RealVal(Fraction(y)) for y in ys])
        got = z3.simplify(leaves[0][1])
        ok = z3.is_true(z3.simplify(got == z3.RealVal(Fraction(want))))
        res.append(dict(test=name, x=x, yvals=ys, expected=want, encoded=str(got), agrees=bool(ok)))
    return res


if __name__ == "__main__":
    import sys, json
    from .mir import dump_mir
    path, key = dump_mir()
    prog = Program(path)
    print(json.dumps(validate_translator(prog), indent=1))
    for ob in check(prog):
        print(json.dumps(ob, indent=1)[:1500])
