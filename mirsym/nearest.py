"""C03 leaf contract (Engine M, IEEE-754 bit-precise): get_nearest_time and
get_nearest_times_2/3/4 return sub-filter indices in [0, factor) and frame
indices next to floor(t) — the callee-side contract the sinc kernels assert —
for every f64 t with |t| < 2^20 and every factor in [1, 2048]."""
import time
import z3
from .interp import Interp, FPDom, State, Ref, Unmodelled, UB

TARGETS = [
    ("get_nearest_time", r"^interpolation::get_nearest_time$", 1),
    ("get_nearest_times_2", r"^interpolation::get_nearest_times_2$", 2),
    ("get_nearest_times_3", r"^interpolation::get_nearest_times_3$", 3),
    ("get_nearest_times_4", r"^interpolation::get_nearest_times_4$", 4),
]


def run(prog, name_re, npts, t, factor, extra=()):
    body = prog.one(name_re)
    I = Interp(prog, FPDom(64))
    st = State()
    st.pc += pre(t, factor) + list(extra)
    if npts == 1:
        leaves = list(I.run(body, [t, factor], st))
        outs = [(s, [r] if r is not None else None) for s, r in leaves]
    else:
        leaves = []
        pts = [[0, 0] for _ in range(npts)]
        for s, r in I.run(body, [t, factor, Ref([pts], 0)], st):
            leaves.append((s, r))
        outs = []
        for s, r in leaves:
            if r is None:
                outs.append((s, None))
            else:
                # the array the function wrote into lives in the (possibly forked) state
                arr = s.frames[0][3].get()
                outs.append((s, arr))
    return I, outs


def pre(t, factor):
    F = z3.Float64()
    lim = z3.FPVal(float(2 ** 20), F)
    return [z3.Not(z3.fpIsNaN(t)), z3.fpLT(z3.fpAbs(t), lim), factor >= 1, factor <= 2048]


def variants():
    F = z3.Float64()
    tiny = lambda t: z3.And(z3.fpLT(t, z3.FPVal(0.0, F)), z3.fpGEQ(t, z3.FPVal(-2.0 ** -54, F)))
    out = []
    for label, nre, npts in TARGETS:
        if npts == 1:
            out.append((label, nre, npts, "base", lambda t, f: [], "obligation"))
        elif npts == 2:
            # t in [-2^-54, 0): (t - floor(t)) rounds to 1.0 and the first point gets subindex == factor.
            # Not known to be reachable through a resampler (see DESIGN.md, F7): kept as a note.
            out.append((label, nre, npts, "base", lambda t, f: [z3.Not(tiny(t))], "obligation"))
            out.append((label, nre, npts, "tiny_negative_t", lambda t, f: [tiny(t)], "note"))
        else:
            out.append((label, nre, npts, "base", lambda t, f: [f >= 2, z3.Not(tiny(t))], "obligation"))
            out.append((label, nre, npts, "tiny_negative_t", lambda t, f: [f >= 2, tiny(t)], "note"))
            out.append((label, nre, npts, "oversampling_1", lambda t, f: [f == 1], "obligation"))
    return out


def check(prog, tier="quick"):
    """All variants, each in its own process (independent solver queries)."""
    from concurrent.futures import ProcessPoolExecutor
    n = len(variants())
    obs, models = [], set()
    with ProcessPoolExecutor(max_workers=min(n, 8)) as ex:
        for o, m in ex.map(_one, [(prog.path, i) for i in range(n)]):
            obs.append(o)
            models |= set(m)
    return obs, sorted(models)


def _one(arg):
    path, i = arg
    from .mir import Program
    prog = Program(path)
    o, m = check_variants(prog, [variants()[i]])
    return o[0], m


def check_variants(prog, vs):
    obs = []
    models = set()
    F = z3.Float64()
    for label, nre, npts, region, extra, kind in vs:
        t0 = time.time()
        t = z3.FP("t", F)
        factor = z3.BitVec("factor", 64)
        ob = dict(id="C03.leaf." + label, region=region, kind=kind, function=None, verdict=None, detail="", paths=0)
        try:
            I, outs = run(prog, nre, npts, t, factor, extra(t, factor))
            models |= I.models_used
            ob["function"] = "interpolation::" + label
            ob["paths"] = len(outs)
            floor_t = z3.fpToSBV(z3.RTZ(), z3.fpRoundToIntegral(z3.RTN(), t), z3.BitVecSort(64))
            viol = []
            for st, pts in outs:
                if pts is None:
                    # panic path (overflow check etc.): reachable?
                    s = z3.Solver()
                    s.set("timeout", 120000)
                    s.add(*st.pc)
                    r = s.check()
                    if r != z3.unsat:
                        viol.append(("panic " + str(st.events[-1:]), st.pc, s.model() if r == z3.sat else None))
                    continue
                for p in pts:
                    idx, sub = p[0], p[1]
                    idx = idx if z3.is_expr(idx) else z3.BitVecVal(idx, 64)
                    sub = sub if z3.is_expr(sub) else z3.BitVecVal(sub, 64)
                    bad = z3.Or(sub < 0, sub >= factor, idx < floor_t - 1, idx > floor_t + 1)
                    s = z3.Solver()
                    s.set("timeout", 300000)
                    s.add(*st.pc)
                    s.add(bad)
                    r = s.check()
                    if r == z3.sat:
                        viol.append(("contract", st.pc, s.model()))
                    elif r != z3.unsat:
                        viol.append(("unknown", st.pc, None))
            if not viol:
                ob["verdict"] = "holds"
            elif any(v[0] == "unknown" for v in viol) and not any(v[2] is not None for v in viol):
                ob["verdict"] = "inconclusive"
                ob["detail"] = "solver returned unknown"
            else:
                v = [x for x in viol if x[2] is not None][0]
                m = v[2]
                tv = m.eval(t, model_completion=True)
                fv = m.eval(factor, model_completion=True)
                ob["verdict"] = "violated"
                ob["model"] = dict(t=str(tv), factor=str(fv), kind=v[0])
                try:
                    import struct
                    bits = z3.simplify(z3.fpToIEEEBV(tv)).as_long()
                    ob["model"]["t_f64"] = struct.unpack("<d", struct.pack("<Q", bits))[0]
                    ob["model"]["t_bits"] = hex(bits)
                    ob["model"]["factor_int"] = fv.as_long()
                except Exception:
                    pass
        except (Unmodelled, UB, LookupError) as e:
            ob["verdict"] = "inconclusive"
            ob["detail"] = "%s: %s" % (type(e).__name__, e)
        ob["solver_s"] = round(time.time() - t0, 2)
        obs.append(ob)
    return obs, sorted(models)


def validate_translator(prog):
    """rubato's own unit-test vectors through the encoding."""
    F = z3.Float64()
    cases = [
        ("get_nearest_times_2", r"^interpolation::get_nearest_times_2$", 2, 5.9, 8, [(5, 7), (6, 0)]),
        ("get_nearest_times_3", r"^interpolation::get_nearest_times_3$", 3, 5.9, 8, [(5, 7), (6, 0), (6, 1)]),
        ("get_nearest_times_4", r"^interpolation::get_nearest_times_4$", 4, 5.9, 8, [(5, 6), (5, 7), (6, 0), (6, 1)]),
        ("get_nearest_times_4", r"^interpolation::get_nearest_times_4$", 4, -5.999, 8, [(-7, 7), (-6, 0), (-6, 1), (-6, 2)]),
        ("get_nearest_time", r"^interpolation::get_nearest_time$", 1, 5.5, 8, [(5, 4)]),
    ]
    res = []
    for name, nre, npts, tv, fv, want in cases:
        body = prog.one(nre)
        I = Interp(prog, FPDom(64), check_feasible=True)
        st = State()
        t = z3.FPVal(tv, F)
        if npts == 1:
            leaves = list(I.run(body, [t, fv], st))
            got = [leaves[0][1]] if len(leaves) == 1 else None
        else:
            pts = [[0, 0] for _ in range(npts)]
            leaves = list(I.run(body, [t, fv, Ref([pts], 0)], st))
            got = leaves[0][0].frames[0][3].get() if len(leaves) == 1 else None
        ok = False
        shown = None
        if got is not None:
            vals = []
            for p in got:
                a = z3.simplify(p[0]) if z3.is_expr(p[0]) else p[0]
                b = z3.simplify(p[1]) if z3.is_expr(p[1]) else p[1]
                a = a.as_signed_long() if z3.is_expr(a) else a
                b = b.as_signed_long() if z3.is_expr(b) else b
                vals.append((a, b))
            shown = vals
            ok = vals == want
        res.append(dict(test=name, t=tv, factor=fv, expected=want, encoded=shown, agrees=ok))
    return res


if __name__ == "__main__":
    import json
    from .mir import dump_mir, Program
    path, key = dump_mir()
    prog = Program(path)
    print(json.dumps(validate_translator(prog), indent=1))
    obs, models = check(prog)
    for o in obs:
        print(json.dumps(o, default=str)[:800])
    print(models)
