//! Environment stubs (applied with `#[kani::stub]`, `-Z stubbing`). Each is a
//! statement about the environment and part of every claim that uses it; the
//! orchestrator lists the stubs of each harness in the evidence.

use num_complex::Complex;
use realfft::{ComplexToReal, FftError, FftNum, RealFftPlanner, RealToComplex};
use std::marker::PhantomData;
use std::mem::MaybeUninit;
use std::sync::Arc;

/// `CpuFeature::is_detected` -> "feature absent" (cpuid is inline asm).
pub fn not_detected(_f: &rubato::CpuFeature) -> bool {
    false
}

/// `rubato::sinc::make_sincs` for the FFT harnesses: a constant table whose
/// value makes the stub transform's filter bins exactly 1+0i
/// (`sinc[0][n] / (2*npoints) == 1`).
pub fn make_sincs_unit<T: rubato::Sample>(
    npoints: usize,
    factor: usize,
    _f_cutoff: f32,
    _w: rubato::WindowFunction,
) -> Vec<Vec<T>> {
    vec![vec![T::coerce(2 * npoints); npoints]; factor]
}

/// Stub forward transform, real length `len` = 2N -> N+1 bins:
/// bin k = (x[k], x[N+k]) for k < N, bin N = 0. Linear and injective on the
/// 2N inputs. With rubato's zero padding of the upper half, bin k = (x[k], 0).
pub struct R2C<T> {
    pub len: usize,
    _p: PhantomData<T>,
}
/// Stub inverse transform, N'+1 bins -> real length 2N':
/// y[k] = re(bin k), y[N'+k] = re(bin k) + im(bin k) for k < N'.
/// The second half feeds rubato's overlap buffer, so the overlap-add path
/// carries data (previous chunk) and stale/uncleared overlaps are observable.
pub struct C2R<T> {
    pub len: usize,
    _p: PhantomData<T>,
}

pub fn scratch_len(len: usize) -> usize {
    len / 2 + 1
}

impl<T: FftNum> RealToComplex<T> for R2C<T> {
    fn process(&self, input: &mut [T], output: &mut [Complex<T>]) -> Result<(), FftError> {
        // like realfft: allocates its own scratch space
        let mut scratch = self.make_scratch_vec();
        self.process_with_scratch(input, output, &mut scratch)
    }
    fn process_with_scratch(
        &self,
        input: &mut [T],
        output: &mut [Complex<T>],
        scratch: &mut [Complex<T>],
    ) -> Result<(), FftError> {
        if input.len() != self.len {
            return Err(FftError::InputBuffer(self.len, input.len()));
        }
        if output.len() != self.len / 2 + 1 {
            return Err(FftError::OutputBuffer(self.len / 2 + 1, output.len()));
        }
        if scratch.len() < scratch_len(self.len) {
            return Err(FftError::ScratchBuffer(scratch_len(self.len), scratch.len()));
        }
        let n = self.len / 2;
        let mut k = 0;
        while k < n {
            output[k] = Complex::new(input[k], input[n + k]);
            k += 1;
        }
        output[n] = Complex::new(T::zero(), T::zero());
        Ok(())
    }
    fn get_scratch_len(&self) -> usize {
        scratch_len(self.len)
    }
    fn len(&self) -> usize {
        self.len
    }
    fn make_input_vec(&self) -> Vec<T> {
        vec![T::zero(); self.len]
    }
    fn make_output_vec(&self) -> Vec<Complex<T>> {
        vec![Complex::new(T::zero(), T::zero()); self.len / 2 + 1]
    }
    fn make_scratch_vec(&self) -> Vec<Complex<T>> {
        vec![Complex::new(T::zero(), T::zero()); scratch_len(self.len)]
    }
}

impl<T: FftNum> ComplexToReal<T> for C2R<T> {
    fn process(&self, input: &mut [Complex<T>], output: &mut [T]) -> Result<(), FftError> {
        let mut scratch = self.make_scratch_vec();
        self.process_with_scratch(input, output, &mut scratch)
    }
    fn process_with_scratch(
        &self,
        input: &mut [Complex<T>],
        output: &mut [T],
        scratch: &mut [Complex<T>],
    ) -> Result<(), FftError> {
        if input.len() != self.len / 2 + 1 {
            return Err(FftError::InputBuffer(self.len / 2 + 1, input.len()));
        }
        if output.len() != self.len {
            return Err(FftError::OutputBuffer(self.len, output.len()));
        }
        if scratch.len() < scratch_len(self.len) {
            return Err(FftError::ScratchBuffer(scratch_len(self.len), scratch.len()));
        }
        let n = self.len / 2;
        let mut k = 0;
        while k < n {
            output[k] = input[k].re;
            output[n + k] = input[k].re + input[k].im;
            k += 1;
        }
        // realfft reports (after transforming) a non-zero imaginary part in
        // the first / last bin.
        let first = input[0].im != T::zero();
        let last = input[n].im != T::zero();
        if first || last {
            return Err(FftError::InputValues(first, last));
        }
        Ok(())
    }
    fn get_scratch_len(&self) -> usize {
        scratch_len(self.len)
    }
    fn len(&self) -> usize {
        self.len
    }
    fn make_input_vec(&self) -> Vec<Complex<T>> {
        vec![Complex::new(T::zero(), T::zero()); self.len / 2 + 1]
    }
    fn make_output_vec(&self) -> Vec<T> {
        vec![T::zero(); self.len]
    }
    fn make_scratch_vec(&self) -> Vec<Complex<T>> {
        vec![Complex::new(T::zero(), T::zero()); scratch_len(self.len)]
    }
}

/// `RealFftPlanner::new`: the real planner owns two HashMaps (intractable for
/// CBMC); the stub planner is never consulted, only dropped.
pub fn planner_new<T: FftNum>() -> RealFftPlanner<T> {
    unsafe { MaybeUninit::<RealFftPlanner<T>>::zeroed().assume_init() }
}
pub fn plan_fwd<T: FftNum>(_p: &mut RealFftPlanner<T>, len: usize) -> Arc<dyn RealToComplex<T>> {
    Arc::new(R2C::<T> {
        len,
        _p: PhantomData,
    })
}
pub fn plan_inv<T: FftNum>(_p: &mut RealFftPlanner<T>, len: usize) -> Arc<dyn ComplexToReal<T>> {
    Arc::new(C2R::<T> {
        len,
        _p: PhantomData,
    })
}
