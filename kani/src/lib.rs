//! Harness crate for solver-based checking of rubato (Engine K of
//! /verif/DESIGN.md). Every harness drives rubato through its public API only.
//! The same bodies compile natively (bin `replay`) to re-execute solver
//! counterexamples against the real build.
#![allow(clippy::all)]
#![allow(static_mut_refs, unused_must_use, unused_imports, dead_code)]

pub mod nd;
pub mod probe;
pub mod stubs;
pub mod util;
pub mod rt;
#[cfg(not(kani))]
pub mod mreplay;
pub mod drive;

pub mod h {
    pub mod c03;
    pub mod c03x;
    pub mod c05;
    pub mod c06;
    pub mod c07f;
    pub mod c09;
    pub mod c10;
    pub mod c11;
    pub mod dbg;
    pub mod c12;
    pub mod c13;
    pub mod c14;
    pub mod c16;
    pub mod c16v;
    pub mod c17;
}

use nd::FileNd;

pub fn lookup(name: &str) -> Option<fn(&mut FileNd)> {
    let tables: &[&[(&str, fn(&mut FileNd))]] = &[h::c03::TABLE, h::c03x::TABLE, h::c05::TABLE, h::c06::TABLE, h::c07f::TABLE, h::c09::TABLE, h::c10::TABLE, h::c11::TABLE, h::c12::TABLE, h::c13::TABLE, h::c14::TABLE, h::c16::TABLE, h::c16v::TABLE, h::c17::TABLE, h::dbg::TABLE];
    for t in tables {
        for (n, f) in t.iter() {
            if *n == name {
                return Some(*f);
            }
        }
    }
    None
}

pub fn all_names() -> Vec<&'static str> {
    let tables: &[&[(&str, fn(&mut FileNd))]] = &[h::c03::TABLE, h::c03x::TABLE, h::c05::TABLE, h::c06::TABLE, h::c07f::TABLE, h::c09::TABLE, h::c10::TABLE, h::c11::TABLE, h::c12::TABLE, h::c13::TABLE, h::c14::TABLE, h::c16::TABLE, h::c16v::TABLE, h::c17::TABLE, h::dbg::TABLE];
    tables.iter().flat_map(|t| t.iter().map(|(n, _)| *n)).collect()
}
