//! C03 / C04 / C07 — synchronous (FFT) resamplers: `fft_step` family.
//! No adjustable parameter exists, so configurations are concrete per harness;
//! symbolic: caller buffer surplus lengths. The FFT itself is a stub (see
//! stubs.rs): what is checked is the block bookkeeping — advertised counts,
//! exact reports, accounting without drift, buffer bounds.
use crate::drive::*;
use crate::util::*;
use crate::{check, cover, harnesses, obs_checks};
use rubato::{FftFixedIn, FftFixedInOut, FftFixedOut, Resampler};

/// accounting monitor: 0 <= total_in*rate_out - total_out*rate_in < block_in*rate_out
macro_rules! account {
    ($tin:expr, $tout:expr, $ri:expr, $ro:expr, $block_in:expr, $exact:expr) => {{
        let lhs = $tin * $ro;
        let rhs = $tout * $ri;
        check!(lhs >= rhs, "C07.fft_never_ahead[base]");
        if $exact {
            check!(lhs == rhs, "C07.fft_inout_exact[base]");
        } else {
            check!(lhs - rhs < $block_in * $ro, "C07.fft_within_one_block[base]");
        }
    }};
}

harnesses! {
    #[kani::unwind(16)]
    #[kani::stub(realfft::RealFftPlanner::<f64>::new, crate::stubs::planner_new)]
    #[kani::stub(realfft::RealFftPlanner::<f64>::plan_fft_forward, crate::stubs::plan_fwd)]
    #[kani::stub(realfft::RealFftPlanner::<f64>::plan_fft_inverse, crate::stubs::plan_inv)]
    #[kani::stub(rubato::sinc::make_sincs, crate::stubs::make_sincs_unit)]
    fn c07_fto_2_3_6_2(nd) {
        let mut r = FftFixedOut::<f64>::new(2, 3, 6, 2, 1).unwrap();
        // FFT block on the input side by the documented sizing rule (smallest multiple of
        // rate/gcd covering chunk/sub_chunks)
        let block_in: usize = 2;
        let mut pos = 0usize;
        let mut tin = 0usize;
        let mut tout = 0usize;
        let mut xin = [0.0f64; 9];
        let mut out = [0.0f64; 7];
        let s_in = nd.usize_in(0, 1);
        let s_out = nd.usize_in(0, 1);
        let mut k = 0;
        while k < 2 {
            let o = call1(nd, &mut r, &mut pos, s_in, s_out, &mut xin, &mut out);
            obs_checks!(o, true, "base");
            tin += o.n_in;
            tout += o.n_out;
            account!(tin, tout, 2, 3, block_in, false);
            check!(r.input_frames_next() <= r.input_frames_max(), "C04.next_le_max_in[base]");
            check!(r.output_frames_next() <= r.output_frames_max(), "C04.next_le_max_out[base]");
            k += 1;
        }
        cover!(tout > 0, "frames produced");
        forget(r);
    }
    #[kani::unwind(16)]
    #[kani::stub(realfft::RealFftPlanner::<f64>::new, crate::stubs::planner_new)]
    #[kani::stub(realfft::RealFftPlanner::<f64>::plan_fft_forward, crate::stubs::plan_fwd)]
    #[kani::stub(realfft::RealFftPlanner::<f64>::plan_fft_inverse, crate::stubs::plan_inv)]
    #[kani::stub(rubato::sinc::make_sincs, crate::stubs::make_sincs_unit)]
    fn c07_fto_2_3_4_1(nd) {
        let mut r = FftFixedOut::<f64>::new(2, 3, 4, 1, 1).unwrap();
        // FFT block on the input side by the documented sizing rule (smallest multiple of
        // rate/gcd covering chunk/sub_chunks)
        let block_in: usize = 4;
        let mut pos = 0usize;
        let mut tin = 0usize;
        let mut tout = 0usize;
        let mut xin = [0.0f64; 9];
        let mut out = [0.0f64; 5];
        let s_in = nd.usize_in(0, 1);
        let s_out = nd.usize_in(0, 1);
        let mut k = 0;
        while k < 2 {
            let o = call1(nd, &mut r, &mut pos, s_in, s_out, &mut xin, &mut out);
            obs_checks!(o, true, "base");
            tin += o.n_in;
            tout += o.n_out;
            account!(tin, tout, 2, 3, block_in, false);
            check!(r.input_frames_next() <= r.input_frames_max(), "C04.next_le_max_in[base]");
            check!(r.output_frames_next() <= r.output_frames_max(), "C04.next_le_max_out[base]");
            k += 1;
        }
        cover!(tout > 0, "frames produced");
        forget(r);
    }
    #[kani::unwind(16)]
    #[kani::stub(realfft::RealFftPlanner::<f64>::new, crate::stubs::planner_new)]
    #[kani::stub(realfft::RealFftPlanner::<f64>::plan_fft_forward, crate::stubs::plan_fwd)]
    #[kani::stub(realfft::RealFftPlanner::<f64>::plan_fft_inverse, crate::stubs::plan_inv)]
    #[kani::stub(rubato::sinc::make_sincs, crate::stubs::make_sincs_unit)]
    fn c07_fto_2_3_1_1(nd) {
        let mut r = FftFixedOut::<f64>::new(2, 3, 1, 1, 1).unwrap();
        // FFT block on the input side by the documented sizing rule (smallest multiple of
        // rate/gcd covering chunk/sub_chunks)
        let block_in: usize = 2;
        let mut pos = 0usize;
        let mut tin = 0usize;
        let mut tout = 0usize;
        let mut xin = [0.0f64; 9];
        let mut out = [0.0f64; 5];
        let s_in = nd.usize_in(0, 1);
        let s_out = nd.usize_in(0, 1);
        let mut k = 0;
        while k < 4 {
            let o = call1(nd, &mut r, &mut pos, s_in, s_out, &mut xin, &mut out);
            obs_checks!(o, true, "base");
            tin += o.n_in;
            tout += o.n_out;
            account!(tin, tout, 2, 3, block_in, false);
            check!(r.input_frames_next() <= r.input_frames_max(), "C04.next_le_max_in[base]");
            check!(r.output_frames_next() <= r.output_frames_max(), "C04.next_le_max_out[base]");
            k += 1;
        }
        cover!(tout > 0, "frames produced");
        forget(r);
    }
    #[kani::unwind(16)]
    #[kani::stub(realfft::RealFftPlanner::<f64>::new, crate::stubs::planner_new)]
    #[kani::stub(realfft::RealFftPlanner::<f64>::plan_fft_forward, crate::stubs::plan_fwd)]
    #[kani::stub(realfft::RealFftPlanner::<f64>::plan_fft_inverse, crate::stubs::plan_inv)]
    #[kani::stub(rubato::sinc::make_sincs, crate::stubs::make_sincs_unit)]
    fn c07_fto_3_2_3_1(nd) {
        let mut r = FftFixedOut::<f64>::new(3, 2, 3, 1, 1).unwrap();
        // FFT block on the input side by the documented sizing rule (smallest multiple of
        // rate/gcd covering chunk/sub_chunks)
        let block_in: usize = 6;
        let mut pos = 0usize;
        let mut tin = 0usize;
        let mut tout = 0usize;
        let mut xin = [0.0f64; 13];
        let mut out = [0.0f64; 4];
        let s_in = nd.usize_in(0, 1);
        let s_out = nd.usize_in(0, 1);
        let mut k = 0;
        while k < 2 {
            let o = call1(nd, &mut r, &mut pos, s_in, s_out, &mut xin, &mut out);
            obs_checks!(o, true, "base");
            tin += o.n_in;
            tout += o.n_out;
            account!(tin, tout, 3, 2, block_in, false);
            check!(r.input_frames_next() <= r.input_frames_max(), "C04.next_le_max_in[base]");
            check!(r.output_frames_next() <= r.output_frames_max(), "C04.next_le_max_out[base]");
            k += 1;
        }
        cover!(tout > 0, "frames produced");
        forget(r);
    }
    #[kani::unwind(16)]
    #[kani::stub(realfft::RealFftPlanner::<f64>::new, crate::stubs::planner_new)]
    #[kani::stub(realfft::RealFftPlanner::<f64>::plan_fft_forward, crate::stubs::plan_fwd)]
    #[kani::stub(realfft::RealFftPlanner::<f64>::plan_fft_inverse, crate::stubs::plan_inv)]
    #[kani::stub(rubato::sinc::make_sincs, crate::stubs::make_sincs_unit)]
    fn c07_fti_2_3_3_1(nd) {
        let mut r = FftFixedIn::<f64>::new(2, 3, 3, 1, 1).unwrap();
        // FFT block on the input side by the documented sizing rule (smallest multiple of
        // rate/gcd covering chunk/sub_chunks)
        let block_in: usize = 4;
        let mut pos = 0usize;
        let mut tin = 0usize;
        let mut tout = 0usize;
        let mut xin = [0.0f64; 4];
        let mut out = [0.0f64; 10];
        let s_in = nd.usize_in(0, 1);
        let s_out = nd.usize_in(0, 1);
        let mut k = 0;
        while k < 2 {
            let o = call1(nd, &mut r, &mut pos, s_in, s_out, &mut xin, &mut out);
            obs_checks!(o, false, "base");
            tin += o.n_in;
            tout += o.n_out;
            account!(tin, tout, 2, 3, block_in, false);
            check!(r.input_frames_next() <= r.input_frames_max(), "C04.next_le_max_in[base]");
            check!(r.output_frames_next() <= r.output_frames_max(), "C04.next_le_max_out[base]");
            k += 1;
        }
        cover!(tout > 0, "frames produced");
        forget(r);
    }
    #[kani::unwind(16)]
    #[kani::stub(realfft::RealFftPlanner::<f64>::new, crate::stubs::planner_new)]
    #[kani::stub(realfft::RealFftPlanner::<f64>::plan_fft_forward, crate::stubs::plan_fwd)]
    #[kani::stub(realfft::RealFftPlanner::<f64>::plan_fft_inverse, crate::stubs::plan_inv)]
    #[kani::stub(rubato::sinc::make_sincs, crate::stubs::make_sincs_unit)]
    fn c07_fti_2_3_1_1(nd) {
        let mut r = FftFixedIn::<f64>::new(2, 3, 1, 1, 1).unwrap();
        // FFT block on the input side by the documented sizing rule (smallest multiple of
        // rate/gcd covering chunk/sub_chunks)
        let block_in: usize = 2;
        let mut pos = 0usize;
        let mut tin = 0usize;
        let mut tout = 0usize;
        let mut xin = [0.0f64; 2];
        let mut out = [0.0f64; 7];
        let s_in = nd.usize_in(0, 1);
        let s_out = nd.usize_in(0, 1);
        let mut k = 0;
        while k < 4 {
            let o = call1(nd, &mut r, &mut pos, s_in, s_out, &mut xin, &mut out);
            obs_checks!(o, false, "base");
            tin += o.n_in;
            tout += o.n_out;
            account!(tin, tout, 2, 3, block_in, false);
            check!(r.input_frames_next() <= r.input_frames_max(), "C04.next_le_max_in[base]");
            check!(r.output_frames_next() <= r.output_frames_max(), "C04.next_le_max_out[base]");
            k += 1;
        }
        cover!(tout > 0, "frames produced");
        forget(r);
    }
    #[kani::unwind(16)]
    #[kani::stub(realfft::RealFftPlanner::<f64>::new, crate::stubs::planner_new)]
    #[kani::stub(realfft::RealFftPlanner::<f64>::plan_fft_forward, crate::stubs::plan_fwd)]
    #[kani::stub(realfft::RealFftPlanner::<f64>::plan_fft_inverse, crate::stubs::plan_inv)]
    #[kani::stub(rubato::sinc::make_sincs, crate::stubs::make_sincs_unit)]
    fn c07_fti_3_2_4_2(nd) {
        let mut r = FftFixedIn::<f64>::new(3, 2, 4, 2, 1).unwrap();
        // FFT block on the input side by the documented sizing rule (smallest multiple of
        // rate/gcd covering chunk/sub_chunks)
        let block_in: usize = 3;
        let mut pos = 0usize;
        let mut tin = 0usize;
        let mut tout = 0usize;
        let mut xin = [0.0f64; 5];
        let mut out = [0.0f64; 7];
        let s_in = nd.usize_in(0, 1);
        let s_out = nd.usize_in(0, 1);
        let mut k = 0;
        while k < 2 {
            let o = call1(nd, &mut r, &mut pos, s_in, s_out, &mut xin, &mut out);
            obs_checks!(o, false, "base");
            tin += o.n_in;
            tout += o.n_out;
            account!(tin, tout, 3, 2, block_in, false);
            check!(r.input_frames_next() <= r.input_frames_max(), "C04.next_le_max_in[base]");
            check!(r.output_frames_next() <= r.output_frames_max(), "C04.next_le_max_out[base]");
            k += 1;
        }
        cover!(tout > 0, "frames produced");
        forget(r);
    }
    #[kani::unwind(16)]
    #[kani::stub(realfft::RealFftPlanner::<f64>::new, crate::stubs::planner_new)]
    #[kani::stub(realfft::RealFftPlanner::<f64>::plan_fft_forward, crate::stubs::plan_fwd)]
    #[kani::stub(realfft::RealFftPlanner::<f64>::plan_fft_inverse, crate::stubs::plan_inv)]
    #[kani::stub(rubato::sinc::make_sincs, crate::stubs::make_sincs_unit)]
    fn c07_ftio_2_3_2(nd) {
        let mut r = FftFixedInOut::<f64>::new(2, 3, 2, 1).unwrap();
        // FFT block on the input side by the documented sizing rule (smallest multiple of
        // rate/gcd covering chunk/sub_chunks)
        let block_in: usize = 2;
        let mut pos = 0usize;
        let mut tin = 0usize;
        let mut tout = 0usize;
        let mut xin = [0.0f64; 3];
        let mut out = [0.0f64; 4];
        let s_in = nd.usize_in(0, 1);
        let s_out = nd.usize_in(0, 1);
        let mut k = 0;
        while k < 2 {
            let o = call1(nd, &mut r, &mut pos, s_in, s_out, &mut xin, &mut out);
            obs_checks!(o, true, "base");
            tin += o.n_in;
            tout += o.n_out;
            account!(tin, tout, 2, 3, block_in, true);
            check!(r.input_frames_next() <= r.input_frames_max(), "C04.next_le_max_in[base]");
            check!(r.output_frames_next() <= r.output_frames_max(), "C04.next_le_max_out[base]");
            k += 1;
        }
        cover!(tout > 0, "frames produced");
        forget(r);
    }
    #[kani::unwind(16)]
    #[kani::stub(realfft::RealFftPlanner::<f64>::new, crate::stubs::planner_new)]
    #[kani::stub(realfft::RealFftPlanner::<f64>::plan_fft_forward, crate::stubs::plan_fwd)]
    #[kani::stub(realfft::RealFftPlanner::<f64>::plan_fft_inverse, crate::stubs::plan_inv)]
    #[kani::stub(rubato::sinc::make_sincs, crate::stubs::make_sincs_unit)]
    fn c07_ftio_3_2_4(nd) {
        let mut r = FftFixedInOut::<f64>::new(3, 2, 4, 1).unwrap();
        // FFT block on the input side by the documented sizing rule (smallest multiple of
        // rate/gcd covering chunk/sub_chunks)
        let block_in: usize = 6;
        let mut pos = 0usize;
        let mut tin = 0usize;
        let mut tout = 0usize;
        let mut xin = [0.0f64; 7];
        let mut out = [0.0f64; 5];
        let s_in = nd.usize_in(0, 1);
        let s_out = nd.usize_in(0, 1);
        let mut k = 0;
        while k < 2 {
            let o = call1(nd, &mut r, &mut pos, s_in, s_out, &mut xin, &mut out);
            obs_checks!(o, true, "base");
            tin += o.n_in;
            tout += o.n_out;
            account!(tin, tout, 3, 2, block_in, true);
            check!(r.input_frames_next() <= r.input_frames_max(), "C04.next_le_max_in[base]");
            check!(r.output_frames_next() <= r.output_frames_max(), "C04.next_le_max_out[base]");
            k += 1;
        }
        cover!(tout > 0, "frames produced");
        forget(r);
    }

    // block sizing of FftFixedInOut: in*rate_out == out*rate_in, in the smallest such size >= chunk
    #[kani::unwind(12)]
    #[kani::stub(realfft::RealFftPlanner::<f64>::new, crate::stubs::planner_new)]
    #[kani::stub(realfft::RealFftPlanner::<f64>::plan_fft_forward, crate::stubs::plan_fwd)]
    #[kani::stub(realfft::RealFftPlanner::<f64>::plan_fft_inverse, crate::stubs::plan_inv)]
    #[kani::stub(rubato::sinc::make_sincs, crate::stubs::make_sincs_unit)]
    fn c07_ftio_sizing(nd) {
        // concrete constructor calls (sizes must stay constant), all checked
        let cases: [(usize, usize, usize); 6] = [(2, 3, 1), (2, 3, 2), (2, 3, 3), (4, 6, 3), (3, 1, 4), (1, 1, 5)];
        let mut i = 0;
        while i < 6 {
            let (ri, ro, chunk) = cases[i];
            let r = FftFixedInOut::<f64>::new(ri, ro, chunk, 1).unwrap();
            let nin = r.input_frames_next();
            let nout = r.output_frames_next();
            let g = if ri == 4 { 2 } else { 1 };
            check!(nin * ro == nout * ri, "C07.fft_inout_sizes_exact[base]");
            check!(nin >= chunk, "C07.fft_inout_size_ge_chunk[base]");
            check!(nin < chunk + ri / g, "C07.fft_inout_size_smallest[base]");
            check!(nin == r.input_frames_max() && nout == r.output_frames_max(), "C04.next_le_max_in[base]");
            forget(r);
            i += 1;
        }
    }

    // vacuity witness (must FAIL)
    #[kani::unwind(16)]
    #[kani::stub(realfft::RealFftPlanner::<f64>::new, crate::stubs::planner_new)]
    #[kani::stub(realfft::RealFftPlanner::<f64>::plan_fft_forward, crate::stubs::plan_fwd)]
    #[kani::stub(realfft::RealFftPlanner::<f64>::plan_fft_inverse, crate::stubs::plan_inv)]
    #[kani::stub(rubato::sinc::make_sincs, crate::stubs::make_sincs_unit)]
    fn c07_fft_witness(nd) {
        let mut r = FftFixedInOut::<f64>::new(2, 3, 2, 1).unwrap();
        let mut pos = 0usize;
        let mut xin = [0.0f64; 3];
        let mut out = [0.0f64; 4];
        let o = call1(nd, &mut r, &mut pos, 0, 0, &mut xin, &mut out);
        check!(!(o.ok && o.n_out == 3), "WITNESS.c07fft");
        forget(r);
    }
}
