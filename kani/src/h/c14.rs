//! C14 — output_delay() reports the true alignment delay. With the index
//! signal every output value is its evaluation instant tau (input frames), so
//! "an event at input frame n appears at output frame n*ratio + output_delay()"
//! reads: | j - (tau_j * ratio + output_delay()) | <= max(1, ratio) + 1.
use crate::probe::{self, BASE};
use crate::util::*;
use crate::{check, cover, harnesses, unroll32};
use rubato::{
    FastFixedIn, FastFixedOut, PolynomialDegree, Resampler, SincFixedIn, SincFixedOut,
    SincInterpolationType,
};
use crate::h::c06::{call_line, Stream, EPS};

macro_rules! delay_checks {
    ($r:ident, $st:ident, $tau:ident, $n:expr, $MO:expr, $ratio:expr, $min_tau:expr, $tag:literal) => {{
        let delay = $r.output_delay() as f64;
        let tol = (if $ratio > 1.0 { $ratio } else { 1.0 }) + 1.0;
        let mut ok = true;
        unroll32!(j, $MO, {
            if j < $n && $tau[j] >= $min_tau {
                let jg = ($st.produced + j) as f64;
                let e = jg - ($tau[j] * $ratio + delay);
                if !(e <= tol && e >= -tol) { ok = false; }
            }
        });
        check!(ok, $tag);
        $st.produced += $n;
    }};
}

harnesses! {
    // FastFixedOut: ratio set once (symbolic, every accepted value), two calls from fresh
    #[kani::unwind(8)]
    fn c14_ffo(nd) {
        let mut r = FastFixedOut::<f64>::new(1.0, 2.0, PolynomialDegree::Linear, 3, 1).unwrap();
        let newr = nd.f64();
        nd.assume(r.set_resample_ratio(newr, false).is_ok());
        let mut st = Stream { supplied: 0, produced: 0, last: 0.0, have_last: false };
        let mut tau = [0.0f64; 3];
        let (ok, _, n) = call_line::<_, _, 14, 3>(nd, &mut r, &mut st, &mut tau);
        check!(ok, "C03.ok[base]");
        // frames whose window lies in supplied data: instant >= 0
        delay_checks!(r, st, tau, n, 3, newr, 0.0, "C14.delay[base]");
        let (ok, _, n) = call_line::<_, _, 14, 3>(nd, &mut r, &mut st, &mut tau);
        check!(ok, "C03.ok[base]");
        delay_checks!(r, st, tau, n, 3, newr, 0.0, "C14.delay[base]");
        cover!(ok && newr > 1.9, "fast ratio");
        cover!(ok && newr < 0.55, "slow ratio");
        forget(r);
    }
    #[kani::unwind(8)]
    fn c14_ffo_grid(nd) {
        let mut r = FastFixedOut::<f64>::new(1.0, 2.0, PolynomialDegree::Linear, 3, 1).unwrap();
        let k = nd.u8();
        let newr = (k as f64) / 32.0;
        nd.assume(r.set_resample_ratio(newr, false).is_ok());
        let mut st = Stream { supplied: 0, produced: 0, last: 0.0, have_last: false };
        let mut tau = [0.0f64; 3];
        let (ok, _, n) = call_line::<_, _, 14, 3>(nd, &mut r, &mut st, &mut tau);
        check!(ok, "C03.ok[base]");
        // frames whose window lies in supplied data: instant >= 0
        delay_checks!(r, st, tau, n, 3, newr, 0.0, "C14.delay[base]");
        let (ok, _, n) = call_line::<_, _, 14, 3>(nd, &mut r, &mut st, &mut tau);
        check!(ok, "C03.ok[base]");
        delay_checks!(r, st, tau, n, 3, newr, 0.0, "C14.delay[base]");
        cover!(ok && newr > 1.9, "fast ratio");
        cover!(ok && newr < 0.55, "slow ratio");
        forget(r);
    }
    // FastFixedIn: the delay must follow the CURRENT ratio (stepped change to 2.0 or 0.5, two calls)
    #[kani::unwind(34)]
    fn c14_ffi_changed(nd) {
        let mut r = FastFixedIn::<f64>::new(1.0, 2.0, PolynomialDegree::Linear, 10, 1).unwrap();
        let up = nd.bool();
        let newr = if up { 2.0 } else { 0.5 };
        check!(r.set_resample_ratio(newr, false).is_ok(), "C12.abs_iff[base]");
        let mut st = Stream { supplied: 0, produced: 0, last: 0.0, have_last: false };
        let mut tau = [0.0f64; 30];
        let (ok, _, n) = call_line::<_, _, 10, 30>(nd, &mut r, &mut st, &mut tau);
        check!(ok, "C03.ok[base]");
        delay_checks!(r, st, tau, n, 30, newr, 0.0, "C14.delay[base]");
        let (ok, _, n) = call_line::<_, _, 10, 30>(nd, &mut r, &mut st, &mut tau);
        check!(ok, "C03.ok[base]");
        cover!(ok && n > 0 && tau[0] >= 0.0, "frames inside the stream observed");
        delay_checks!(r, st, tau, n, 30, newr, 0.0, "C14.delay[base]");
        forget(r);
    }
    // SincFixedOut with the probe: the probe's value is the centre of the kernel window, i.e.
    // the input instant the real (linear-phase, centred) kernel evaluates.
    #[kani::unwind(8)]
    fn c14_sfo(nd) {
        probe::reset_flags();
        let mut r = SincFixedOut::<f64>::new_with_interpolator(1.0, 2.0, SincInterpolationType::Linear, probe::boxed64(8, 2), 3, 1).unwrap();
        let k = nd.u8();
        let newr = (k as f64) / 32.0;
        nd.assume(r.set_resample_ratio(newr, false).is_ok());
        let mut st = Stream { supplied: 0, produced: 0, last: 0.0, have_last: false };
        let mut tau = [0.0f64; 3];
        let (ok, _, n) = call_line::<_, _, 14, 3>(nd, &mut r, &mut st, &mut tau);
        check!(ok, "C03.ok[base]");
        st.produced += n;
        let (ok, _, n) = call_line::<_, _, 14, 3>(nd, &mut r, &mut st, &mut tau);
        check!(ok, "C03.ok[base]");
        // second call: windows on line data. The probe returns the tap at index + len/2 plus the
        // sub-filter fraction; the real table is centred one tap earlier (see DESIGN C14), which is
        // inside the property's +-(max(1,ratio)+1) tolerance.
        delay_checks!(r, st, tau, n, 3, newr, 4.0, "C14.delay[sinc_types]");
        forget(r);
    }
    // recorded finding F8, concrete witness at the original ratio
    #[kani::unwind(8)]
    fn c14_sfo_kf(nd) {
        probe::reset_flags();
        let mut r = SincFixedOut::<f64>::new_with_interpolator(1.0, 2.0, SincInterpolationType::Linear, probe::boxed64(8, 2), 3, 1).unwrap();
        let newr = 1.0f64;
        let mut st = Stream { supplied: 0, produced: 0, last: 0.0, have_last: false };
        let mut tau = [0.0f64; 3];
        let (ok, _, n) = call_line::<_, _, 14, 3>(nd, &mut r, &mut st, &mut tau);
        check!(ok, "C03.ok[base]");
        st.produced += n;
        let (ok, _, n) = call_line::<_, _, 14, 3>(nd, &mut r, &mut st, &mut tau);
        check!(ok, "C03.ok[base]");
        // second call: windows on line data. The probe returns the tap at index + len/2 plus the
        // sub-filter fraction; the real table is centred one tap earlier (see DESIGN C14), which is
        // inside the property's +-(max(1,ratio)+1) tolerance.
        delay_checks!(r, st, tau, n, 3, newr, 4.0, "C14.delay[sinc_types]");
        forget(r);
    }
    // vacuity witness (must FAIL)
    #[kani::unwind(8)]
    fn c14_witness(nd) {
        let mut r = FastFixedOut::<f64>::new(1.0, 2.0, PolynomialDegree::Linear, 3, 1).unwrap();
        let mut st = Stream { supplied: 0, produced: 0, last: 0.0, have_last: false };
        let mut tau = [0.0f64; 3];
        let (ok, _, n) = call_line::<_, _, 14, 3>(nd, &mut r, &mut st, &mut tau);
        let (ok, _, n) = call_line::<_, _, 14, 3>(nd, &mut r, &mut st, &mut tau);
        check!(!(ok && n == 3), "WITNESS.c14");
        forget(r);
    }
}
