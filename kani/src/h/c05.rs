//! C05 — the output stream is independent of chunking and of the
//! FixedIn/FixedOut variant. Two instances are fed the same stream in different
//! chunkings; their common output prefix must be bit-identical (copy-only
//! kernel on symbolic data: "for all input signals"; index signal where the
//! evaluation instants are the subject).
use crate::probe;
use crate::util::*;
use crate::{check, cover, harnesses, unroll32};
use rubato::{
    FastFixedIn, FastFixedOut, FftFixedIn, FftFixedInOut, FftFixedOut, PolynomialDegree, Resampler,
    SincFixedIn, SincFixedOut, SincInterpolationType,
};

/// Run `$r` for `$calls` calls on the shared stream `$x` (starting at 0),
/// appending produced frames to `$acc` (capacity `$CAP`).
macro_rules! run_stream {
    ($nd:ident, $r:ident, $x:ident, $acc:ident, $CAP:expr, $MO:expr, $calls:expr) => {{
        let mut pos = 0usize;
        let mut got = 0usize;
        let mut k = 0;
        while k < $calls {
            let n = $r.input_frames_next();
            $crate::fit!($nd, pos + n <= $x.len(), "C05.input_demand_consistent[base]");
            let mut o = [SENT; $MO];
            match $r.process_into_buffer(&[&$x[pos..pos + n]], &mut [&mut o[..]], None) {
                Ok((ni, no)) => {
                    pos += ni;
                    unroll32!(i, $MO, { if i < no && got + i < $CAP { $acc[got + i] = o[i]; } });
                    got += no;
                }
                Err(_) => { check!(false, "C03.ok[base]"); }
            }
            k += 1;
        }
        got
    }};
}

macro_rules! sym_stream {
    ($nd:ident, $x:ident, $N:expr) => {
        unroll32!(i, $N, {
            let v = $nd.f32();
            $nd.assume(v.is_finite());
            $x[i] = v as f64;
        });
    };
}

macro_rules! common_prefix_equal {
    ($a:ident, $na:expr, $b:ident, $nb:expr, $CAP:expr, $min:expr, $tag:literal) => {{
        let n = if $na < $nb { $na } else { $nb };
        let mut same = true;
        unroll32!(i, $CAP, { if i < n && $a[i].to_bits() != $b[i].to_bits() { same = false; } });
        check!(same, $tag);
        check!(n >= $min, "C05.harness_common_prefix_long_enough[base]");
    }};
}

harnesses! {
    // ---- same type, different chunk sizes, symbolic signal
    #[kani::unwind(8)]
    fn c05_ffo_chunks_2_3(nd) {
        let mut a = FastFixedOut::<f64>::new(0.75, 1.0, PolynomialDegree::Nearest, 2, 1).unwrap();
        let mut b = FastFixedOut::<f64>::new(0.75, 1.0, PolynomialDegree::Nearest, 3, 1).unwrap();
        let mut x = [0.0f64; 24];
        sym_stream!(nd, x, 24);
        let mut ya = [0.0f64; 8];
        let mut yb = [0.0f64; 8];
        let na = run_stream!(nd, a, x, ya, 8, 3, 3);
        let nb = run_stream!(nd, b, x, yb, 8, 3, 2);
        common_prefix_equal!(ya, na, yb, nb, 8, 6, "C05.chunking_independent[base]");
        forget(a); forget(b);
    }
    #[kani::unwind(8)]
    fn c05_sfo_chunks_1_3(nd) {
        probe::reset_flags();
        let mut a = SincFixedOut::<f64>::new_with_interpolator(1.5, 1.0, SincInterpolationType::Nearest, probe::boxed64(4, 2), 1, 1).unwrap();
        let mut b = SincFixedOut::<f64>::new_with_interpolator(1.5, 1.0, SincInterpolationType::Nearest, probe::boxed64(4, 2), 3, 1).unwrap();
        let mut x = [0.0f64; 16];
        crate::drive::fill_line(&mut x[..], 0);
        let mut ya = [0.0f64; 8];
        let mut yb = [0.0f64; 8];
        let na = run_stream!(nd, a, x, ya, 8, 3, 6);
        let nb = run_stream!(nd, b, x, yb, 8, 3, 2);
        common_prefix_equal!(ya, na, yb, nb, 8, 6, "C05.chunking_independent[base]");
        forget(a); forget(b);
    }

    // ---- fixed-input vs fixed-output variant of the same algorithm
    #[kani::unwind(22)]
    fn c05_ffi_vs_ffo(nd) {
        let mut a = FastFixedIn::<f64>::new(1.0, 1.0, PolynomialDegree::Nearest, 8, 1).unwrap();
        let mut b = FastFixedOut::<f64>::new(1.0, 1.0, PolynomialDegree::Nearest, 5, 1).unwrap();
        let mut x = [0.0f64; 24];
        sym_stream!(nd, x, 24);
        let mut ya = [0.0f64; 12];
        let mut yb = [0.0f64; 12];
        let na = run_stream!(nd, a, x, ya, 12, 18, 2);
        let nb = run_stream!(nd, b, x, yb, 12, 5, 2);
        common_prefix_equal!(ya, na, yb, nb, 12, 8, "C05.variant_independent[base]");
        forget(a); forget(b);
    }

    // ---- set_chunk_size in mid-stream (sinc types): the stream must continue seamlessly.
    // Index signal + strict probe: every window must lie on supplied line data and the
    // instants keep their uniform spacing (ratio 1: spacing 1).
    #[kani::unwind(12)]
    fn c05_sfi_chunk_change(nd) {
        probe::reset_flags();
        let mut r = SincFixedIn::<f64>::new_with_interpolator(1.0, 1.0, SincInterpolationType::Linear, probe::boxed64(4, 2), 8, 1).unwrap();
        let mut x = [0.0f64; 32];
        crate::drive::fill_line(&mut x[..], 0);
        let mut y = [0.0f64; 24];
        // two calls at the construction chunk size: the pre-roll holds the line
        let mut pos = 0usize;
        let mut got = 0usize;
        let mut k = 0;
        let c = nd.usize_in(1, 8);
        let mut changed = false;
        while k < 4 {
            if k == 2 {
                check!(r.set_chunk_size(c).is_ok(), "C03.ok[base]");
                changed = c != 8;
                probe::set_strict(true);
            }
            let n = r.input_frames_next();
            crate::fit!(nd, pos + n <= 32, "C05.input_demand_consistent[base]");
            let mut o = [SENT; 18];
            match r.process_into_buffer(&[&x[pos..pos + n]], &mut [&mut o[..]], None) {
                Ok((ni, no)) => {
                    pos += ni;
                    unroll32!(i, 18, { if i < no && got + i < 24 { y[got + i] = o[i]; } });
                    got += no;
                }
                Err(_) => { check!(false, "C03.ok[base]"); }
            }
            k += 1;
        }
        // frames 2.. are past the start-up transient
        let mut uniform = true;
        unroll32!(i, 24, {
            if i >= 3 && i < got && i < 24 {
                let d = y[i] - y[i - 1];
                if !(d == 1.0) { uniform = false; }
            }
        });
        if changed {
            check!(!probe::offline(), "C05.no_stale_storage[chunk_changed_midstream]");
            check!(uniform, "C05.stream_continuous[chunk_changed_midstream]");
        } else {
            check!(!probe::offline(), "C05.no_stale_storage[base]");
            check!(uniform, "C05.stream_continuous[base]");
        }
        cover!(changed && c == 1, "chunk lowered to 1 in mid-stream");
        cover!(!changed, "chunk unchanged");
        forget(r);
    }
    #[kani::unwind(12)]
    fn c05_sfi_chunk_change_to3(nd) {
        probe::reset_flags();
        let mut r = SincFixedIn::<f64>::new_with_interpolator(1.0, 1.0, SincInterpolationType::Linear, probe::boxed64(4, 2), 8, 1).unwrap();
        let mut x = [0.0f64; 32];
        crate::drive::fill_line(&mut x[..], 0);
        let mut y = [0.0f64; 24];
        // two calls at the construction chunk size: the pre-roll holds the line
        let mut pos = 0usize;
        let mut got = 0usize;
        let mut k = 0;
        let c = 3usize;
        let mut changed = false;
        while k < 4 {
            if k == 2 {
                check!(r.set_chunk_size(c).is_ok(), "C03.ok[base]");
                changed = c != 8;
                probe::set_strict(true);
            }
            let n = r.input_frames_next();
            crate::fit!(nd, pos + n <= 32, "C05.input_demand_consistent[base]");
            let mut o = [SENT; 18];
            match r.process_into_buffer(&[&x[pos..pos + n]], &mut [&mut o[..]], None) {
                Ok((ni, no)) => {
                    pos += ni;
                    unroll32!(i, 18, { if i < no && got + i < 24 { y[got + i] = o[i]; } });
                    got += no;
                }
                Err(_) => { check!(false, "C03.ok[base]"); }
            }
            k += 1;
        }
        // frames 2.. are past the start-up transient
        let mut uniform = true;
        unroll32!(i, 24, {
            if i >= 3 && i < got && i < 24 {
                let d = y[i] - y[i - 1];
                if !(d == 1.0) { uniform = false; }
            }
        });
        if changed {
            check!(!probe::offline(), "C05.no_stale_storage[chunk_changed_midstream]");
            check!(uniform, "C05.stream_continuous[chunk_changed_midstream]");
        } else {
            check!(!probe::offline(), "C05.no_stale_storage[base]");
            check!(uniform, "C05.stream_continuous[base]");
        }
        
        
        forget(r);
    }
    #[kani::unwind(12)]
    fn c05_sfo_chunk_change(nd) {
        probe::reset_flags();
        let mut r = SincFixedOut::<f64>::new_with_interpolator(1.0, 1.0, SincInterpolationType::Linear, probe::boxed64(4, 2), 4, 1).unwrap();
        let mut x = [0.0f64; 32];
        crate::drive::fill_line(&mut x[..], 0);
        let mut y = [0.0f64; 16];
        let mut pos = 0usize;
        let mut got = 0usize;
        let mut k = 0;
        let c = nd.usize_in(1, 4);
        let mut changed = false;
        while k < 4 {
            if k == 2 {
                check!(r.set_chunk_size(c).is_ok(), "C03.ok[base]");
                changed = c != 4;
                probe::set_strict(true);
            }
            let n = r.input_frames_next();
            crate::fit!(nd, pos + n <= 32, "C05.input_demand_consistent[base]");
            let mut o = [SENT; 4];
            match r.process_into_buffer(&[&x[pos..pos + n]], &mut [&mut o[..]], None) {
                Ok((ni, no)) => {
                    pos += ni;
                    unroll32!(i, 4, { if i < no && got + i < 16 { y[got + i] = o[i]; } });
                    got += no;
                }
                Err(_) => { check!(false, "C03.ok[base]"); }
            }
            k += 1;
        }
        let mut uniform = true;
        unroll32!(i, 16, {
            if i >= 5 && i < got && i < 16 {
                let d = y[i] - y[i - 1];
                if !(d == 1.0) { uniform = false; }
            }
        });
        if changed {
            check!(!probe::offline(), "C05.no_stale_storage[chunk_changed_midstream]");
            check!(uniform, "C05.stream_continuous[chunk_changed_midstream]");
        } else {
            check!(!probe::offline(), "C05.no_stale_storage[base]");
            check!(uniform, "C05.stream_continuous[base]");
        }
        cover!(changed && c == 1, "chunk lowered to 1 in mid-stream");
        forget(r);
    }

    // ---- synchronous types resolving to the same FFT block (2 -> 3): FixedInOut vs FixedIn
    #[kani::unwind(12)]
    #[kani::stub(realfft::RealFftPlanner::<f64>::new, crate::stubs::planner_new)]
    #[kani::stub(realfft::RealFftPlanner::<f64>::plan_fft_forward, crate::stubs::plan_fwd)]
    #[kani::stub(realfft::RealFftPlanner::<f64>::plan_fft_inverse, crate::stubs::plan_inv)]
    #[kani::stub(rubato::sinc::make_sincs, crate::stubs::make_sincs_unit)]
    fn c05_ftio_vs_fti(nd) {
        let mut a = FftFixedInOut::<f64>::new(2, 3, 2, 1).unwrap();
        let mut b = FftFixedIn::<f64>::new(2, 3, 4, 2, 1).unwrap();
        let mut x = [0.0f64; 8];
        crate::drive::fill_line(&mut x[..], 0);
        let mut ya = [0.0f64; 8];
        let mut yb = [0.0f64; 8];
        let na = run_stream!(nd, a, x, ya, 8, 3, 2);
        let nb = run_stream!(nd, b, x, yb, 8, 6, 1);
        common_prefix_equal!(ya, na, yb, nb, 8, 6, "C05.variant_independent[base]");
        forget(a); forget(b);
    }
    #[kani::unwind(12)]
    #[kani::stub(realfft::RealFftPlanner::<f64>::new, crate::stubs::planner_new)]
    #[kani::stub(realfft::RealFftPlanner::<f64>::plan_fft_forward, crate::stubs::plan_fwd)]
    #[kani::stub(realfft::RealFftPlanner::<f64>::plan_fft_inverse, crate::stubs::plan_inv)]
    #[kani::stub(rubato::sinc::make_sincs, crate::stubs::make_sincs_unit)]
    fn c05_ftio_vs_fto(nd) {
        let mut a = FftFixedInOut::<f64>::new(2, 3, 2, 1).unwrap();
        let mut b = FftFixedOut::<f64>::new(2, 3, 3, 1, 1).unwrap();
        let mut x = [0.0f64; 8];
        crate::drive::fill_line(&mut x[..], 0);
        let mut ya = [0.0f64; 8];
        let mut yb = [0.0f64; 8];
        let na = run_stream!(nd, a, x, ya, 8, 3, 2);
        let nb = run_stream!(nd, b, x, yb, 8, 3, 2);
        common_prefix_equal!(ya, na, yb, nb, 8, 6, "C05.variant_independent[base]");
        forget(a); forget(b);
    }


    // FFT block (3) larger than the FixedOut chunk (2): some calls consume no input
    #[kani::unwind(12)]
    #[kani::stub(realfft::RealFftPlanner::<f64>::new, crate::stubs::planner_new)]
    #[kani::stub(realfft::RealFftPlanner::<f64>::plan_fft_forward, crate::stubs::plan_fwd)]
    #[kani::stub(realfft::RealFftPlanner::<f64>::plan_fft_inverse, crate::stubs::plan_inv)]
    #[kani::stub(rubato::sinc::make_sincs, crate::stubs::make_sincs_unit)]
    fn c05_ftio_vs_fto_small_chunk(nd) {
        let mut a = FftFixedInOut::<f64>::new(2, 3, 2, 1).unwrap();
        let mut b = FftFixedOut::<f64>::new(2, 3, 1, 1, 1).unwrap();
        let mut x = [0.0f64; 8];
        crate::drive::fill_line(&mut x[..], 0);
        let mut ya = [0.0f64; 8];
        let mut yb = [0.0f64; 8];
        let na = run_stream!(nd, a, x, ya, 8, 3, 2);
        let nb = run_stream!(nd, b, x, yb, 8, 1, 6);
        common_prefix_equal!(ya, na, yb, nb, 8, 6, "C05.variant_independent[base]");
        forget(a); forget(b);
    }

    // vacuity witness (must FAIL): different ratios
    #[kani::unwind(8)]
    fn c05_witness(nd) {
        let mut a = FastFixedOut::<f64>::new(0.75, 1.0, PolynomialDegree::Nearest, 2, 1).unwrap();
        let mut b = FastFixedOut::<f64>::new(0.5, 1.0, PolynomialDegree::Nearest, 3, 1).unwrap();
        let mut x = [0.0f64; 24];
        crate::drive::fill_line(&mut x[..], 0);
        let mut ya = [0.0f64; 8];
        let mut yb = [0.0f64; 8];
        let na = run_stream!(nd, a, x, ya, 8, 3, 3);
        let nb = run_stream!(nd, b, x, yb, 8, 3, 2);
        common_prefix_equal!(ya, na, yb, nb, 8, 6, "WITNESS.c05[base]");
        forget(a); forget(b);
    }
}
