//! C10 — reset() returns the resampler to its freshly-constructed behaviour.
//! Instance A is dirtied by a symbolic history, reset, and compared with a
//! fresh twin B: all getters, then the same calls must give equal Results,
//! counts and bit-equal outputs. Also serves C03 (untagged checks after reset).
use crate::drive::fill_line;
use crate::probe;
use crate::util::*;
use crate::{check, cover, harnesses, unroll32};
use rubato::{
    FastFixedIn, FastFixedOut, FftFixedIn, FftFixedInOut, FftFixedOut, PolynomialDegree, Resampler,
    SincFixedIn, SincFixedOut, SincInterpolationType,
};

macro_rules! getters {
    ($r:expr) => {
        ($r.input_frames_next(), $r.output_frames_next(), $r.input_frames_max(), $r.output_frames_max(),
         $r.output_delay(), $r.nbr_channels())
    };
}

/// Compare `$a` (after reset) with the fresh twin `$b`: getters, then `$calls`
/// processing calls with the index signal on 2 channels.
macro_rules! same_as_fresh {
    ($nd:ident, $a:ident, $b:ident, $T:ty, $MI:expr, $MO:expr, $calls:expr) => {{
        let ga = getters!($a);
        let gb = getters!($b);
        check!(ga.0 == gb.0, "C10.getter_input_frames_next[base]");
        check!(ga.1 == gb.1, "C10.getter_output_frames_next[base]");
        check!(ga.2 == gb.2 && ga.3 == gb.3, "C10.getter_max[base]");
        check!(ga.4 == gb.4, "C10.getter_output_delay[base]");
        let mut k = 0;
        let mut pos = 0usize;
        while k < $calls {
            let mut x0 = [0.0 as $T; $MI];
            let mut x1 = [0.0 as $T; $MI];
            fill_line(&mut x0[..], pos);
            fill_line(&mut x1[..], pos + 300);
            let sent = SENT as $T;
            let mut a0 = [sent; $MO];
            let mut a1 = [sent; $MO];
            let mut b0 = [sent; $MO];
            let mut b1 = [sent; $MO];
            let na = $a.input_frames_next();
            let nb = $b.input_frames_next();
            check!(na == nb, "C10.getter_input_frames_next[base]");
            $crate::fit!($nd, na <= $MI && nb <= $MI, "C10.demand_fits_scenario_bound[base]");
            let ra = $a.process_into_buffer(&[&x0[..na], &x1[..na]], &mut [&mut a0[..], &mut a1[..]], None);
            let rb = $b.process_into_buffer(&[&x0[..nb], &x1[..nb]], &mut [&mut b0[..], &mut b1[..]], None);
            match (ra, rb) {
                (Ok(ca), Ok(cb)) => {
                    check!(ca == cb, "C10.counts[base]");
                    let mut same = true;
                    unroll32!(i, $MO, {
                        if a0[i].to_bits() != b0[i].to_bits() || a1[i].to_bits() != b1[i].to_bits() { same = false; }
                    });
                    check!(same, "C10.outputs_bit_identical[base]");
                    pos += ca.0;
                    cover!(ca.1 > 0, "post-reset call produced frames");
                }
                (Err(_), Err(_)) => {}
                _ => { check!(false, "C10.result_variant[base]"); }
            }
            check!($a.input_frames_next() == $b.input_frames_next() && $a.output_frames_next() == $b.output_frames_next()
                && $a.output_delay() == $b.output_delay(), "C10.getters_after_call[base]");
            k += 1;
        }
    }};
}

/// Dirty an asynchronous resampler: symbolic ratio change (any accepted f64,
/// ramp symbolic), `$ncalls` calls with non-zero data on a symbolic mask, an
/// optional pending second change, an optional failed call.
macro_rules! dirty_async {
    ($nd:ident, $a:ident, $T:ty, $MI:expr, $MO:expr, $dom:ident) => {{
        let newr: f64 = dirty_async!(@ratio $nd, $dom);
        let ramp = $nd.bool();
        let res = $a.set_resample_ratio(newr, ramp);
        $nd.assume(res.is_ok());
        let m1 = $nd.bool();
        let x0 = [0.5 as $T; $MI];
        let x1 = [-0.25 as $T; $MI];
        let mut y0 = [0.0 as $T; $MO];
        let mut y1 = [0.0 as $T; $MO];
        let n = $a.input_frames_next();
        $crate::fit!($nd, n <= $MI, "C10.demand_fits_scenario_bound[base]");
        let r1 = $a.process_into_buffer(&[&x0[..n], &x1[..n]], &mut [&mut y0[..], &mut y1[..]], Some(&[true, m1]));
        check!(r1.is_ok(), "C03.ok[base]");
        // a pending (unprocessed) change and a failed call just before the reset
        let pend = $nd.bool();
        if pend {
            let _ = $a.set_resample_ratio_relative(1.25, true);
        }
        let r2 = $a.process_into_buffer(&[&x0[..0], &x1[..0]], &mut [&mut y0[..], &mut y1[..]], None);
        cover!(r2.is_err(), "failed call before reset");
        cover!(ramp && pend, "pending ramp before reset");
        cover!(newr < 0.9, "ratio lowered before reset");
        cover!(newr > 1.1, "ratio raised before reset");
    }};
    (@ratio $nd:ident, full) => {{ $nd.f64() }};
    (@ratio $nd:ident, grid) => {{ let k = $nd.u8(); (k as f64) / 32.0 }};
}


/// Concrete dirtying history (constant-folds): ratio change `$r1` (ramp `$ramp1`), one call on
/// non-zero data with mask [true,false], optionally a second, still pending ramped change and a
/// failed call (empty input) right before the reset.
macro_rules! dirty_concrete {
    ($nd:ident, $a:ident, $T:ty, $MI:expr, $MO:expr, $r1:expr, $ramp1:expr, $ncalls:expr, $pend:expr) => {{
        check!($a.set_resample_ratio($r1, $ramp1).is_ok(), "C03.ok[base]");
        let x0 = [0.5 as $T; $MI];
        let x1 = [-0.25 as $T; $MI];
        let mut y0 = [0.0 as $T; $MO];
        let mut y1 = [0.0 as $T; $MO];
        let mut k = 0;
        while k < $ncalls {
            let n = $a.input_frames_next();
            $crate::fit!($nd, n <= $MI, "C10.demand_fits_scenario_bound[base]");
            let r = $a.process_into_buffer(&[&x0[..n], &x1[..n]], &mut [&mut y0[..], &mut y1[..]], Some(&[true, k == 0]));
            check!(r.is_ok(), "C03.ok[base]");
            k += 1;
        }
        if $pend {
            check!($a.set_resample_ratio_relative(1.25, true).is_ok(), "C03.ok[base]");
            let r2 = $a.process_into_buffer(&[&x0[..0], &x1[..0]], &mut [&mut y0[..], &mut y1[..]], None);
            check!(r2.is_err(), "C13.err_expected[base]");
        }
    }};
}

macro_rules! fft_stub_harness { () => {}; }


/// One-channel versions (every call costs solver time: CBMC does not constant-fold through
/// the buffer memmove, so quick-tier harnesses keep the number of calls minimal).
macro_rules! same1 {
    ($nd:ident, $a:ident, $b:ident, $T:ty, $MI:expr, $MO:expr, $calls:expr) => {{
        let ga = getters!($a);
        let gb = getters!($b);
        check!(ga.0 == gb.0, "C10.getter_input_frames_next[base]");
        check!(ga.1 == gb.1, "C10.getter_output_frames_next[base]");
        check!(ga.2 == gb.2 && ga.3 == gb.3, "C10.getter_max[base]");
        check!(ga.4 == gb.4, "C10.getter_output_delay[base]");
        let mut k = 0;
        let mut pos = 0usize;
        while k < $calls {
            let mut x0 = [0.0 as $T; $MI];
            fill_line(&mut x0[..], pos);
            let sent = SENT as $T;
            let mut a0 = [sent; $MO];
            let mut b0 = [sent; $MO];
            let na = $a.input_frames_next();
            let nb = $b.input_frames_next();
            check!(na == nb, "C10.getter_input_frames_next[base]");
            $crate::fit!($nd, na <= $MI && nb <= $MI, "C10.demand_fits_scenario_bound[base]");
            let ra = $a.process_into_buffer(&[&x0[..na]], &mut [&mut a0[..]], None);
            let rb = $b.process_into_buffer(&[&x0[..nb]], &mut [&mut b0[..]], None);
            match (ra, rb) {
                (Ok(ca), Ok(cb)) => {
                    check!(ca == cb, "C10.counts[base]");
                    let mut same = true;
                    unroll32!(i, $MO, { if a0[i].to_bits() != b0[i].to_bits() { same = false; } });
                    check!(same, "C10.outputs_bit_identical[base]");
                    pos += ca.0;
                    cover!(ca.1 > 0, "post-reset call produced frames");
                }
                (Err(_), Err(_)) => {}
                _ => { check!(false, "C10.result_variant[base]"); }
            }
            check!($a.input_frames_next() == $b.input_frames_next() && $a.output_frames_next() == $b.output_frames_next()
                && $a.output_delay() == $b.output_delay(), "C10.getters_after_call[base]");
            k += 1;
        }
    }};
}
macro_rules! dirty1 {
    ($nd:ident, $a:ident, $T:ty, $MI:expr, $MO:expr, $r1:expr, $ramp1:expr, $ncalls:expr, $pend:expr) => {{
        check!($a.set_resample_ratio($r1, $ramp1).is_ok(), "C03.ok[base]");
        let x0 = [0.5 as $T; $MI];
        let mut y0 = [0.0 as $T; $MO];
        let mut k = 0;
        while k < $ncalls {
            let n = $a.input_frames_next();
            $crate::fit!($nd, n <= $MI, "C10.demand_fits_scenario_bound[base]");
            let r = $a.process_into_buffer(&[&x0[..n]], &mut [&mut y0[..]], None);
            check!(r.is_ok(), "C03.ok[base]");
            k += 1;
        }
        if $pend {
            check!($a.set_resample_ratio_relative(1.25, true).is_ok(), "C03.ok[base]");
            let r2 = $a.process_into_buffer(&[&x0[..0]], &mut [&mut y0[..]], None);
            check!(r2.is_err(), "C13.err_expected[base]");
        }
    }};
}

harnesses! {
    // ---------------- quick: concrete one-channel histories, reset, getters + calls vs a fresh twin
    #[kani::unwind(44)]
    fn c10_ffo_lowered(nd) {
        let mut a = FastFixedOut::<f64>::new(1.0, 2.0, PolynomialDegree::Linear, 2, 1).unwrap();
        let mut b = FastFixedOut::<f64>::new(1.0, 2.0, PolynomialDegree::Linear, 2, 1).unwrap();
        dirty1!(nd, a, f64, 12, 2, 0.5, false, 1, false);
        a.reset();
        same1!(nd, a, b, f64, 12, 2, 2);
        forget(a); forget(b);
    }
    #[kani::unwind(44)]
    fn c10_ffo_ramp_pending(nd) {
        let mut a = FastFixedOut::<f64>::new(1.0, 2.0, PolynomialDegree::Nearest, 2, 1).unwrap();
        let mut b = FastFixedOut::<f64>::new(1.0, 2.0, PolynomialDegree::Nearest, 2, 1).unwrap();
        dirty1!(nd, a, f64, 12, 2, 1.75, true, 1, true);
        a.reset();
        same1!(nd, a, b, f64, 12, 2, 2);
        forget(a); forget(b);
    }
    #[kani::unwind(30)]
    fn c10_ffi_lowered(nd) {
        let mut a = FastFixedIn::<f64>::new(1.0, 2.0, PolynomialDegree::Linear, 8, 1).unwrap();
        let mut b = FastFixedIn::<f64>::new(1.0, 2.0, PolynomialDegree::Linear, 8, 1).unwrap();
        dirty1!(nd, a, f64, 8, 26, 0.5, false, 1, false);
        a.reset();
        same1!(nd, a, b, f64, 8, 26, 2);
        forget(a); forget(b);
    }
    #[kani::unwind(30)]
    fn c10_ffi_ramp_pending(nd) {
        let mut a = FastFixedIn::<f64>::new(1.0, 2.0, PolynomialDegree::Nearest, 8, 1).unwrap();
        let mut b = FastFixedIn::<f64>::new(1.0, 2.0, PolynomialDegree::Nearest, 8, 1).unwrap();
        dirty1!(nd, a, f64, 8, 26, 2.0, true, 1, true);
        a.reset();
        same1!(nd, a, b, f64, 8, 26, 2);
        forget(a); forget(b);
    }
    #[kani::unwind(44)]
    fn c10_sfo_lowered_chunk(nd) {
        probe::reset_flags();
        let mut a = SincFixedOut::<f64>::new_with_interpolator(1.0, 2.0, SincInterpolationType::Linear, probe::boxed64_sum(4, 2), 3, 1).unwrap();
        let mut b = SincFixedOut::<f64>::new_with_interpolator(1.0, 2.0, SincInterpolationType::Linear, probe::boxed64_sum(4, 2), 3, 1).unwrap();
        check!(a.set_chunk_size(1).is_ok(), "C03.ok[base]");
        dirty1!(nd, a, f64, 12, 3, 0.5, false, 1, false);
        a.reset();
        same1!(nd, a, b, f64, 12, 3, 2);
        forget(a); forget(b);
    }
    #[kani::unwind(44)]
    fn c10_sfo_ramp_pending(nd) {
        probe::reset_flags();
        let mut a = SincFixedOut::<f64>::new_with_interpolator(1.0, 2.0, SincInterpolationType::Nearest, probe::boxed64_sum(4, 2), 3, 1).unwrap();
        let mut b = SincFixedOut::<f64>::new_with_interpolator(1.0, 2.0, SincInterpolationType::Nearest, probe::boxed64_sum(4, 2), 3, 1).unwrap();
        dirty1!(nd, a, f64, 12, 3, 1.5, true, 1, true);
        a.reset();
        same1!(nd, a, b, f64, 12, 3, 2);
        forget(a); forget(b);
    }
    #[kani::unwind(30)]
    fn c10_sfi_lowered_chunk(nd) {
        probe::reset_flags();
        let mut a = SincFixedIn::<f64>::new_with_interpolator(1.0, 2.0, SincInterpolationType::Linear, probe::boxed64_sum(4, 2), 8, 1).unwrap();
        let mut b = SincFixedIn::<f64>::new_with_interpolator(1.0, 2.0, SincInterpolationType::Linear, probe::boxed64_sum(4, 2), 8, 1).unwrap();
        check!(a.set_chunk_size(5).is_ok(), "C03.ok[base]");
        dirty1!(nd, a, f64, 8, 26, 0.5, false, 1, false);
        a.reset();
        same1!(nd, a, b, f64, 8, 26, 2);
        forget(a); forget(b);
    }
    // full-size call with signal, smaller chunk + call, reset: nothing of the earlier, larger chunk may survive
    #[kani::unwind(30)]
    fn c10_sfi_full_then_lowered(nd) {
        probe::reset_flags();
        let mut a = SincFixedIn::<f64>::new_with_interpolator(1.0, 2.0, SincInterpolationType::Linear, probe::boxed64_sum(4, 2), 8, 1).unwrap();
        let mut b = SincFixedIn::<f64>::new_with_interpolator(1.0, 2.0, SincInterpolationType::Linear, probe::boxed64_sum(4, 2), 8, 1).unwrap();
        let x0 = [0.5f64; 8];
        let mut y0 = [0.0f64; 26];
        check!(a.process_into_buffer(&[&x0[..]], &mut [&mut y0[..]], None).is_ok(), "C03.ok[base]");
        check!(a.set_chunk_size(3).is_ok(), "C03.ok[base]");
        check!(a.process_into_buffer(&[&x0[..3]], &mut [&mut y0[..]], None).is_ok(), "C03.ok[base]");
        a.reset();
        same1!(nd, a, b, f64, 8, 26, 1);
        forget(a); forget(b);
    }
    // two channels, the last call before the reset masks channel 1: reset must clear it all the same
    #[kani::unwind(16)]
    #[kani::stub(realfft::RealFftPlanner::<f64>::new, crate::stubs::planner_new)]
    #[kani::stub(realfft::RealFftPlanner::<f64>::plan_fft_forward, crate::stubs::plan_fwd)]
    #[kani::stub(realfft::RealFftPlanner::<f64>::plan_fft_inverse, crate::stubs::plan_inv)]
    #[kani::stub(rubato::sinc::make_sincs, crate::stubs::make_sincs_unit)]
    fn c10_fto_masked_then_reset(nd) {
        let mut a = FftFixedOut::<f64>::new(2, 3, 3, 1, 2).unwrap();
        let mut b = FftFixedOut::<f64>::new(2, 3, 3, 1, 2).unwrap();
        let x0 = [0.5f64; 4];
        let x1 = [0.25f64; 4];
        let e: [f64; 0] = [];
        let mut y0 = [0.0f64; 3];
        let mut y1 = [0.0f64; 3];
        let n = a.input_frames_next();
        crate::fit!(nd, n <= 4, "C10.demand_fits_scenario_bound[base]");
        check!(a.process_into_buffer(&[&x0[..n], &x1[..n]], &mut [&mut y0[..], &mut y1[..]], None).is_ok(), "C03.ok[base]");
        let n = a.input_frames_next();
        crate::fit!(nd, n <= 4, "C10.demand_fits_scenario_bound[base]");
        check!(a.process_into_buffer(&[&x0[..n], &e[..]], &mut [&mut y0[..], &mut y1[..]], Some(&[true, false])).is_ok(), "C03.ok[base]");
        a.reset();
        let (na, nb) = (a.input_frames_next(), b.input_frames_next());
        check!(na == nb, "C10.getter_input_frames_next[base]");
        crate::fit!(nd, na <= 4 && nb <= 4, "C10.demand_fits_scenario_bound[base]");
        let mut a0 = [SENT; 3];
        let mut a1 = [SENT; 3];
        let mut b0 = [SENT; 3];
        let mut b1 = [SENT; 3];
        let ra = a.process_into_buffer(&[&x0[..na], &x1[..na]], &mut [&mut a0[..], &mut a1[..]], None);
        let rb = b.process_into_buffer(&[&x0[..nb], &x1[..nb]], &mut [&mut b0[..], &mut b1[..]], None);
        check!(matches!((&ra, &rb), (Ok(p), Ok(q)) if p == q), "C10.counts[base]");
        let mut same = true;
        unroll32!(i, 3, { if a0[i].to_bits() != b0[i].to_bits() || a1[i].to_bits() != b1[i].to_bits() { same = false; } });
        check!(same, "C10.outputs_bit_identical[base]");
        forget(a); forget(b);
    }
    #[kani::unwind(30)]
    fn c10_sfi_ramp_pending(nd) {
        probe::reset_flags();
        let mut a = SincFixedIn::<f64>::new_with_interpolator(1.0, 2.0, SincInterpolationType::Nearest, probe::boxed64_sum(4, 2), 8, 1).unwrap();
        let mut b = SincFixedIn::<f64>::new_with_interpolator(1.0, 2.0, SincInterpolationType::Nearest, probe::boxed64_sum(4, 2), 8, 1).unwrap();
        dirty1!(nd, a, f64, 8, 26, 2.0, true, 1, true);
        a.reset();
        same1!(nd, a, b, f64, 8, 26, 2);
        forget(a); forget(b);
    }
    #[kani::unwind(16)]
    #[kani::stub(realfft::RealFftPlanner::<f64>::new, crate::stubs::planner_new)]
    #[kani::stub(realfft::RealFftPlanner::<f64>::plan_fft_forward, crate::stubs::plan_fwd)]
    #[kani::stub(realfft::RealFftPlanner::<f64>::plan_fft_inverse, crate::stubs::plan_inv)]
    #[kani::stub(rubato::sinc::make_sincs, crate::stubs::make_sincs_unit)]
    fn c10_fto_1(nd) {
        let mut a = FftFixedOut::<f64>::new(2, 3, 4, 2, 1).unwrap();
        let mut b = FftFixedOut::<f64>::new(2, 3, 4, 2, 1).unwrap();
        let x0 = [0.5f64; 8];
        let mut y0 = [0.0f64; 4];
        let mut k = 0;
        while k < 1 {
            let n = a.input_frames_next();
            crate::fit!(nd, n <= 8, "C10.demand_fits_scenario_bound[base]");
            let r = a.process_into_buffer(&[&x0[..n]], &mut [&mut y0[..]], None);
            check!(r.is_ok(), "C03.ok[base]");
            k += 1;
        }
        a.reset();
        same1!(nd, a, b, f64, 8, 4, 1);
        forget(a); forget(b);
    }
    #[kani::unwind(16)]
    #[kani::stub(realfft::RealFftPlanner::<f64>::new, crate::stubs::planner_new)]
    #[kani::stub(realfft::RealFftPlanner::<f64>::plan_fft_forward, crate::stubs::plan_fwd)]
    #[kani::stub(realfft::RealFftPlanner::<f64>::plan_fft_inverse, crate::stubs::plan_inv)]
    #[kani::stub(rubato::sinc::make_sincs, crate::stubs::make_sincs_unit)]
    fn c10_fto_2(nd) {
        let mut a = FftFixedOut::<f64>::new(2, 3, 4, 1, 1).unwrap();
        let mut b = FftFixedOut::<f64>::new(2, 3, 4, 1, 1).unwrap();
        let x0 = [0.5f64; 8];
        let mut y0 = [0.0f64; 4];
        let mut k = 0;
        while k < 2 {
            let n = a.input_frames_next();
            crate::fit!(nd, n <= 8, "C10.demand_fits_scenario_bound[base]");
            let r = a.process_into_buffer(&[&x0[..n]], &mut [&mut y0[..]], None);
            check!(r.is_ok(), "C03.ok[base]");
            k += 1;
        }
        a.reset();
        same1!(nd, a, b, f64, 8, 4, 1);
        forget(a); forget(b);
    }
    #[kani::unwind(16)]
    #[kani::stub(realfft::RealFftPlanner::<f64>::new, crate::stubs::planner_new)]
    #[kani::stub(realfft::RealFftPlanner::<f64>::plan_fft_forward, crate::stubs::plan_fwd)]
    #[kani::stub(realfft::RealFftPlanner::<f64>::plan_fft_inverse, crate::stubs::plan_inv)]
    #[kani::stub(rubato::sinc::make_sincs, crate::stubs::make_sincs_unit)]
    fn c10_fto_mult_2(nd) {
        let mut a = FftFixedOut::<f64>::new(2, 3, 6, 2, 1).unwrap();
        let mut b = FftFixedOut::<f64>::new(2, 3, 6, 2, 1).unwrap();
        let x0 = [0.5f64; 8];
        let mut y0 = [0.0f64; 6];
        let mut k = 0;
        while k < 2 {
            let n = a.input_frames_next();
            crate::fit!(nd, n <= 8, "C10.demand_fits_scenario_bound[base]");
            let r = a.process_into_buffer(&[&x0[..n]], &mut [&mut y0[..]], None);
            check!(r.is_ok(), "C03.ok[base]");
            k += 1;
        }
        a.reset();
        same1!(nd, a, b, f64, 8, 6, 1);
        forget(a); forget(b);
    }
    #[kani::unwind(16)]
    #[kani::stub(realfft::RealFftPlanner::<f64>::new, crate::stubs::planner_new)]
    #[kani::stub(realfft::RealFftPlanner::<f64>::plan_fft_forward, crate::stubs::plan_fwd)]
    #[kani::stub(realfft::RealFftPlanner::<f64>::plan_fft_inverse, crate::stubs::plan_inv)]
    #[kani::stub(rubato::sinc::make_sincs, crate::stubs::make_sincs_unit)]
    fn c10_fti_1(nd) {
        let mut a = FftFixedIn::<f64>::new(2, 3, 3, 1, 1).unwrap();
        let mut b = FftFixedIn::<f64>::new(2, 3, 3, 1, 1).unwrap();
        let x0 = [0.5f64; 3];
        let mut y0 = [0.0f64; 6];
        let mut k = 0;
        while k < 1 {
            let n = a.input_frames_next();
            crate::fit!(nd, n <= 3, "C10.demand_fits_scenario_bound[base]");
            let r = a.process_into_buffer(&[&x0[..n]], &mut [&mut y0[..]], None);
            check!(r.is_ok(), "C03.ok[base]");
            k += 1;
        }
        a.reset();
        same1!(nd, a, b, f64, 3, 6, 2);
        forget(a); forget(b);
    }
    #[kani::unwind(16)]
    #[kani::stub(realfft::RealFftPlanner::<f64>::new, crate::stubs::planner_new)]
    #[kani::stub(realfft::RealFftPlanner::<f64>::plan_fft_forward, crate::stubs::plan_fwd)]
    #[kani::stub(realfft::RealFftPlanner::<f64>::plan_fft_inverse, crate::stubs::plan_inv)]
    #[kani::stub(rubato::sinc::make_sincs, crate::stubs::make_sincs_unit)]
    fn c10_fti_2(nd) {
        let mut a = FftFixedIn::<f64>::new(2, 3, 3, 1, 1).unwrap();
        let mut b = FftFixedIn::<f64>::new(2, 3, 3, 1, 1).unwrap();
        let x0 = [0.5f64; 3];
        let mut y0 = [0.0f64; 6];
        let mut k = 0;
        while k < 2 {
            let n = a.input_frames_next();
            crate::fit!(nd, n <= 3, "C10.demand_fits_scenario_bound[base]");
            let r = a.process_into_buffer(&[&x0[..n]], &mut [&mut y0[..]], None);
            check!(r.is_ok(), "C03.ok[base]");
            k += 1;
        }
        a.reset();
        same1!(nd, a, b, f64, 3, 6, 1);
        forget(a); forget(b);
    }
    #[kani::unwind(16)]
    #[kani::stub(realfft::RealFftPlanner::<f64>::new, crate::stubs::planner_new)]
    #[kani::stub(realfft::RealFftPlanner::<f64>::plan_fft_forward, crate::stubs::plan_fwd)]
    #[kani::stub(realfft::RealFftPlanner::<f64>::plan_fft_inverse, crate::stubs::plan_inv)]
    #[kani::stub(rubato::sinc::make_sincs, crate::stubs::make_sincs_unit)]
    fn c10_ftio_1(nd) {
        let mut a = FftFixedInOut::<f64>::new(2, 3, 2, 1).unwrap();
        let mut b = FftFixedInOut::<f64>::new(2, 3, 2, 1).unwrap();
        let x0 = [0.5f64; 2];
        let mut y0 = [0.0f64; 3];
        let mut k = 0;
        while k < 1 {
            let n = a.input_frames_next();
            crate::fit!(nd, n <= 2, "C10.demand_fits_scenario_bound[base]");
            let r = a.process_into_buffer(&[&x0[..n]], &mut [&mut y0[..]], None);
            check!(r.is_ok(), "C03.ok[base]");
            k += 1;
        }
        a.reset();
        same1!(nd, a, b, f64, 2, 3, 1);
        forget(a); forget(b);
    }

    // ---------------- thorough: symbolic pre-reset history
    #[kani::unwind(44)]
    fn c10_ffo_sym(nd) {
        let mut a = FastFixedOut::<f64>::new(1.0, 2.0, PolynomialDegree::Linear, 2, 2).unwrap();
        let mut b = FastFixedOut::<f64>::new(1.0, 2.0, PolynomialDegree::Linear, 2, 2).unwrap();
        dirty_async!(nd, a, f64, 12, 2, full);
        a.reset();
        same_as_fresh!(nd, a, b, f64, 12, 2, 2);
        forget(a); forget(b);
    }
    #[kani::unwind(24)]
    fn c10_ffi_sym(nd) {
        let mut a = FastFixedIn::<f64>::new(1.0, 2.0, PolynomialDegree::Linear, 3, 2).unwrap();
        let mut b = FastFixedIn::<f64>::new(1.0, 2.0, PolynomialDegree::Linear, 3, 2).unwrap();
        dirty_async!(nd, a, f64, 3, 16, grid);
        a.reset();
        same_as_fresh!(nd, a, b, f64, 3, 16, 3);
        forget(a); forget(b);
    }
    #[kani::unwind(44)]
    fn c10_sfo_sym(nd) {
        probe::reset_flags();
        let mut a = SincFixedOut::<f64>::new_with_interpolator(1.0, 2.0, SincInterpolationType::Linear, probe::boxed64_sum(4, 2), 3, 2).unwrap();
        let mut b = SincFixedOut::<f64>::new_with_interpolator(1.0, 2.0, SincInterpolationType::Linear, probe::boxed64_sum(4, 2), 3, 2).unwrap();
        check!(a.set_chunk_size(1).is_ok(), "C03.ok[base]");
        dirty_async!(nd, a, f64, 12, 3, full);
        a.reset();
        same_as_fresh!(nd, a, b, f64, 12, 3, 2);
        forget(a); forget(b);
    }

    // vacuity witness (must FAIL): without the reset the twin comparison breaks
    #[kani::unwind(44)]
    fn c10_witness(nd) {
        let mut a = FastFixedOut::<f64>::new(1.0, 2.0, PolynomialDegree::Linear, 2, 2).unwrap();
        let mut b = FastFixedOut::<f64>::new(1.0, 2.0, PolynomialDegree::Linear, 2, 2).unwrap();
        check!(a.set_resample_ratio(0.5, false).is_ok(), "C03.ok[base]");
        same_as_fresh!(nd, a, b, f64, 12, 2, 1);
        forget(a); forget(b);
    }
}
