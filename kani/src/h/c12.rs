//! C12 — ratio and chunk-size controls accept exactly the documented ranges.
use crate::probe;
use crate::util::*;
use crate::{check, cover, harnesses};
use rubato::{
    FastFixedIn, FastFixedOut, FftFixedIn, FftFixedInOut, FftFixedOut, PolynomialDegree,
    ResampleError, Resampler, SincFixedIn, SincFixedOut, SincInterpolationType,
};

/// The documented acceptance predicate, computed in f64 exactly as written in
/// the property: original/max <= r <= original*max.
fn in_abs(orig: f64, max: f64, r: f64) -> bool {
    orig / max <= r && r <= orig * max
}
fn in_rel(max: f64, x: f64) -> bool {
    1.0 / max <= x && x <= max
}

/// Absolute setter on resampler `$r` (already constructed with orig/max):
/// accept-iff, error payload, rejected call leaves the getters alone.
macro_rules! abs_checks {
    ($nd:ident, $r:ident, $orig:expr, $max:expr) => {{
        let r: f64 = $nd.f64();
        let ramp = $nd.bool();
        let g0 = (
            $r.input_frames_next(),
            $r.output_frames_next(),
            $r.input_frames_max(),
            $r.output_frames_max(),
            $r.output_delay(),
        );
        let res = $r.set_resample_ratio(r, ramp);
        let want = in_abs($orig, $max, r);
        check!(res.is_ok() == want, "C12.abs_iff[base]");
        if let Err(e) = &res {
            match e {
                ResampleError::RatioOutOfBounds {
                    provided,
                    original,
                    max_relative_ratio,
                } => {
                    check!(
                        provided.to_bits() == r.to_bits()
                            && *original == $orig
                            && *max_relative_ratio == $max,
                        "C12.abs_err_fields[base]"
                    );
                }
                _ => {
                    check!(false, "C12.abs_err_variant[base]");
                }
            }
            let g1 = (
                $r.input_frames_next(),
                $r.output_frames_next(),
                $r.input_frames_max(),
                $r.output_frames_max(),
                $r.output_delay(),
            );
            check!(g0 == g1, "C12.rejected_changes_getters[base]");
        }
        cover!(res.is_ok(), "accepted reachable");
        cover!(res.is_err() && r > 0.0, "rejected positive reachable");
        cover!(r.is_nan(), "nan reachable");
        cover!(res.is_ok() && r == $orig * $max, "upper bound accepted");
        cover!(res.is_ok() && r == $orig / $max, "lower bound accepted");
        res.is_ok()
    }};
}

macro_rules! rel_checks {
    ($nd:ident, $r:ident, $orig:expr, $max:expr) => {{
        let x: f64 = $nd.f64();
        let ramp = $nd.bool();
        let g0 = (
            $r.input_frames_next(),
            $r.output_frames_next(),
            $r.output_delay(),
        );
        let res = $r.set_resample_ratio_relative(x, ramp);
        let want = in_rel($max, x);
        check!(res.is_ok() == want, "C12.rel_iff[base]");
        if let Err(e) = &res {
            match e {
                ResampleError::RatioOutOfBounds {
                    original,
                    max_relative_ratio,
                    ..
                } => {
                    check!(
                        *original == $orig && *max_relative_ratio == $max,
                        "C12.rel_err_fields[base]"
                    );
                }
                _ => {
                    check!(false, "C12.rel_err_variant[base]");
                }
            }
            let g1 = (
                $r.input_frames_next(),
                $r.output_frames_next(),
                $r.output_delay(),
            );
            check!(g0 == g1, "C12.rejected_changes_getters[base]");
        }
        cover!(res.is_ok() && x == $max, "rel upper bound accepted");
        cover!(res.is_ok() && x == 1.0 / $max, "rel lower bound accepted");
        cover!(res.is_err() && x > 0.0, "rel rejected positive");
        (x, ramp, res.is_ok())
    }};
}

fn sym_orig_max<N: crate::nd::Nondet>(nd: &mut N) -> (f64, f64) {
    let orig = nd.f64();
    let max = nd.f64();
    nd.assume(orig >= 1.0 / 1024.0 && orig <= 1024.0);
    nd.assume(max >= 1.0 && max <= 1024.0);
    (orig, max)
}

/// relative == absolute(orig*x): getters and one Nearest call agree with a
/// twin that received the absolute call, whenever that twin accepts.
macro_rules! rel_equals_abs {
    ($nd:ident, $mk:expr, $orig:expr, $max:expr, $inlen:expr, $outlen:expr) => {{
        let mut a = $mk;
        let mut b = $mk;
        let (x, ramp, ok) = rel_checks!($nd, a, $orig, $max);
        if ok {
            let rb = b.set_resample_ratio($orig * x, ramp);
            // the one-ulp sliver where orig*fl(1/max) < fl(orig/max): the two
            // clauses of the property disagree; excluded (DESIGN C12).
            if rb.is_ok() {
                check!(
                    a.input_frames_next() == b.input_frames_next()
                        && a.output_frames_next() == b.output_frames_next()
                        && a.output_delay() == b.output_delay(),
                    "C12.rel_as_abs_getters[base]"
                );
                let n_in = a.input_frames_next();
                $crate::fit!($nd, n_in <= $inlen, "C12.demand_fits_scenario_bound[base]");
                let mut xin = [0.0f64; $inlen];
                let mut i = 0;
                while i < $inlen {
                    xin[i] = (probe::BASE + i) as f64;
                    i += 1;
                }
                let mut oa = [SENT; $outlen];
                let mut ob = [SENT; $outlen];
                let ra = a.process_into_buffer(&[&xin[..]], &mut [&mut oa[..]], None);
                let rb2 = b.process_into_buffer(&[&xin[..]], &mut [&mut ob[..]], None);
                match (ra, rb2) {
                    (Ok(ca), Ok(cb)) => {
                        check!(ca == cb, "C12.rel_as_abs_counts[base]");
                        let mut same = true;
                        let mut i = 0;
                        while i < $outlen {
                            if oa[i].to_bits() != ob[i].to_bits() {
                                same = false;
                            }
                            i += 1;
                        }
                        check!(same, "C12.rel_as_abs_output[base]");
                        cover!(ca.1 > 0, "rel twin produced frames");
                    }
                    (Err(_), Err(_)) => {}
                    _ => {
                        check!(false, "C12.rel_as_abs_result[base]");
                    }
                }
            }
        }
        forget(a);
        forget(b);
    }};
}

harnesses! {
    // ---- absolute setter, symbolic original ratio and max (size-independent types)
    #[kani::unwind(4)]
    fn c12_abs_ffi_sym(nd) {
        let (orig, max) = sym_orig_max(nd);
        let mut r = FastFixedIn::<f64>::new(orig, max, PolynomialDegree::Nearest, 2, 1).unwrap();
        abs_checks!(nd, r, orig, max);
        forget(r);
    }

    #[kani::unwind(4)]
    fn c12_abs_ffi32_sym(nd) {
        let (orig, max) = sym_orig_max(nd);
        let mut r = FastFixedIn::<f32>::new(orig, max, PolynomialDegree::Cubic, 3, 2).unwrap();
        abs_checks!(nd, r, orig, max);
        forget(r);
    }

    #[kani::unwind(6)]
    fn c12_abs_sfi_sym(nd) {
        let (orig, max) = sym_orig_max(nd);
        let mut r = SincFixedIn::<f64>::new_with_interpolator(
            orig, max, SincInterpolationType::Linear, probe::boxed64(2, 1), 2, 1).unwrap();
        abs_checks!(nd, r, orig, max);
        forget(r);
    }

    // ---- absolute setter, fixed-output types: concrete awkward (orig, max) pairs
    #[kani::unwind(4)]
    fn c12_abs_ffo_a(nd) {
        // the pair the solver produced for F1 (DESIGN section 6)
        let (orig, max) = (0.012400514220697175f64, 63.14900589023214f64);
        let mut r = FastFixedOut::<f64>::new(orig, max, PolynomialDegree::Nearest, 2, 1).unwrap();
        abs_checks!(nd, r, orig, max);
        forget(r);
    }
    #[kani::unwind(4)]
    fn c12_abs_ffo_b(nd) {
        let (orig, max) = (48000.0f64 / 44100.0, 1.1f64);
        let mut r = FastFixedOut::<f32>::new(orig, max, PolynomialDegree::Linear, 2, 1).unwrap();
        abs_checks!(nd, r, orig, max);
        forget(r);
    }
    #[kani::unwind(4)]
    fn c12_abs_ffo_c(nd) {
        let (orig, max) = (1.0f64, 1.0f64);
        let mut r = FastFixedOut::<f64>::new(orig, max, PolynomialDegree::Septic, 2, 1).unwrap();
        abs_checks!(nd, r, orig, max);
        forget(r);
    }
    #[kani::unwind(6)]
    fn c12_abs_sfo_a(nd) {
        let (orig, max) = (0.1f64, 10.0f64);
        let mut r = SincFixedOut::<f64>::new_with_interpolator(
            orig, max, SincInterpolationType::Nearest, probe::boxed64(2, 1), 2, 1).unwrap();
        abs_checks!(nd, r, orig, max);
        forget(r);
    }
    #[kani::unwind(6)]
    fn c12_abs_sfo_b(nd) {
        let (orig, max) = (3.0f64, 49.0f64 / 3.0);
        let mut r = SincFixedOut::<f32>::new_with_interpolator(
            orig, max, SincInterpolationType::Cubic, probe::boxed32(4, 2), 3, 2).unwrap();
        abs_checks!(nd, r, orig, max);
        forget(r);
    }

    #[kani::unwind(4)]
    fn c12_abs_ffi_a(nd) {
        let (orig, max) = (0.012400514220697175f64, 63.14900589023214f64);
        let mut r = FastFixedIn::<f64>::new(orig, max, PolynomialDegree::Quintic, 2, 1).unwrap();
        abs_checks!(nd, r, orig, max);
        forget(r);
    }
    #[kani::unwind(6)]
    fn c12_abs_sfi_a(nd) {
        let (orig, max) = (44100.0f64 / 48000.0, 1.3f64);
        let mut r = SincFixedIn::<f64>::new_with_interpolator(
            orig, max, SincInterpolationType::Quadratic, probe::boxed64(2, 1), 2, 1).unwrap();
        abs_checks!(nd, r, orig, max);
        forget(r);
    }

    // ---- relative setter
    #[kani::unwind(4)]
    fn c12_rel_ffi_a(nd) {
        let (orig, max) = (0.012400514220697175f64, 63.14900589023214f64);
        let mut r = FastFixedIn::<f64>::new(orig, max, PolynomialDegree::Nearest, 2, 1).unwrap();
        rel_checks!(nd, r, orig, max);
        forget(r);
    }
    #[kani::unwind(6)]
    fn c12_rel_sfi_a(nd) {
        let (orig, max) = (1.7f64, 3.0f64);
        let mut r = SincFixedIn::<f32>::new_with_interpolator(
            orig, max, SincInterpolationType::Linear, probe::boxed32(2, 1), 2, 1).unwrap();
        rel_checks!(nd, r, orig, max);
        forget(r);
    }
    #[kani::unwind(4)]
    fn c12_rel_ffi_sym(nd) {
        let (orig, max) = sym_orig_max(nd);
        let mut r = FastFixedIn::<f64>::new(orig, max, PolynomialDegree::Nearest, 2, 1).unwrap();
        rel_checks!(nd, r, orig, max);
        forget(r);
    }
    #[kani::unwind(6)]
    fn c12_rel_sfi_sym(nd) {
        let (orig, max) = sym_orig_max(nd);
        let mut r = SincFixedIn::<f64>::new_with_interpolator(
            orig, max, SincInterpolationType::Linear, probe::boxed64(2, 1), 2, 1).unwrap();
        rel_checks!(nd, r, orig, max);
        forget(r);
    }
    // quick: relative == absolute(orig*x) on every getter (no processing call)
    #[kani::unwind(6)]
    fn c12_rel_as_abs_getters(nd) {
        let (orig, max) = (0.75f64, 2.0f64);
        let mut a = FastFixedOut::<f64>::new(orig, max, PolynomialDegree::Nearest, 2, 1).unwrap();
        let mut b = FastFixedOut::<f64>::new(orig, max, PolynomialDegree::Nearest, 2, 1).unwrap();
        let mut c = SincFixedIn::<f64>::new_with_interpolator(orig, max, SincInterpolationType::Nearest,
                probe::boxed64(2, 1), 3, 1).unwrap();
        let mut d = SincFixedIn::<f64>::new_with_interpolator(orig, max, SincInterpolationType::Nearest,
                probe::boxed64(2, 1), 3, 1).unwrap();
        let x = nd.f64();
        let ramp = nd.bool();
        let ra = a.set_resample_ratio_relative(x, ramp);
        let rb = b.set_resample_ratio(orig * x, ramp);
        let rc = c.set_resample_ratio_relative(x, ramp);
        let rd = d.set_resample_ratio(orig * x, ramp);
        if ra.is_ok() && rb.is_ok() {
            check!(a.input_frames_next() == b.input_frames_next()
                && a.output_delay() == b.output_delay(), "C12.rel_as_abs_getters[base]");
        }
        if rc.is_ok() && rd.is_ok() {
            check!(c.output_frames_next() == d.output_frames_next()
                && c.output_delay() == d.output_delay(), "C12.rel_as_abs_getters[base]");
        }
        // away from the one-ulp slivers at the two bounds the verdicts coincide
        if x > 0.5000001 && x < 1.9999999 {
            check!(ra.is_ok() && rb.is_ok() && rc.is_ok() && rd.is_ok(), "C12.rel_as_abs_result[base]");
        }
        cover!(ra.is_ok() && ramp, "accepted with ramp");
        cover!(ra.is_ok() && !ramp && x != 1.0, "accepted without ramp");
        forget(a); forget(b); forget(c); forget(d);
    }
    // the same after the current ratio has moved away from the original (absolute change first):
    // a relative change is still relative to the ORIGINAL ratio; FixedIn polynomial and FixedOut sinc types
    #[kani::unwind(6)]
    fn c12_rel_as_abs_getters_moved(nd) {
        let (orig, max) = (0.75f64, 2.0f64);
        let mut a = FastFixedIn::<f64>::new(orig, max, PolynomialDegree::Nearest, 3, 1).unwrap();
        let mut b = FastFixedIn::<f64>::new(orig, max, PolynomialDegree::Nearest, 3, 1).unwrap();
        let mut c = SincFixedOut::<f64>::new_with_interpolator(orig, max, SincInterpolationType::Nearest,
                probe::boxed64(2, 1), 3, 1).unwrap();
        let mut d = SincFixedOut::<f64>::new_with_interpolator(orig, max, SincInterpolationType::Nearest,
                probe::boxed64(2, 1), 3, 1).unwrap();
        check!(a.set_resample_ratio(1.25, false).is_ok() && b.set_resample_ratio(1.25, false).is_ok()
            && c.set_resample_ratio(1.25, false).is_ok() && d.set_resample_ratio(1.25, false).is_ok(), "C12.abs_iff[base]");
        let x = nd.f64();
        let ramp = nd.bool();
        let ra = a.set_resample_ratio_relative(x, ramp);
        let rb = b.set_resample_ratio(orig * x, ramp);
        let rc = c.set_resample_ratio_relative(x, ramp);
        let rd = d.set_resample_ratio(orig * x, ramp);
        if ra.is_ok() && rb.is_ok() {
            check!(a.output_frames_next() == b.output_frames_next()
                && a.output_delay() == b.output_delay(), "C12.rel_as_abs_getters[base]");
        }
        if rc.is_ok() && rd.is_ok() {
            check!(c.input_frames_next() == d.input_frames_next()
                && c.output_delay() == d.output_delay(), "C12.rel_as_abs_getters[base]");
        }
        if x > 0.5000001 && x < 1.9999999 {
            check!(ra.is_ok() && rb.is_ok() && rc.is_ok() && rd.is_ok(), "C12.rel_as_abs_result[base]");
        }
        cover!(ra.is_ok() && ramp, "accepted with ramp");
        cover!(ra.is_ok() && !ramp && x != 1.0, "accepted without ramp");
        forget(a); forget(b); forget(c); forget(d);
    }
    #[kani::unwind(30)]
    fn c12_rel_as_abs_ffi(nd) {
        rel_equals_abs!(nd,
            FastFixedIn::<f64>::new(1.5, 3.0, PolynomialDegree::Nearest, 2, 1).unwrap(),
            1.5f64, 3.0f64, 2, 19);
    }
    #[kani::unwind(16)]
    fn c12_rel_as_abs_ffo(nd) {
        rel_equals_abs!(nd,
            FastFixedOut::<f64>::new(0.75, 2.0, PolynomialDegree::Nearest, 2, 1).unwrap(),
            0.75f64, 2.0f64, 14, 2);
    }
    #[kani::unwind(16)]
    fn c12_rel_as_abs_sfo(nd) {
        rel_equals_abs!(nd,
            SincFixedOut::<f64>::new_with_interpolator(0.75, 2.0, SincInterpolationType::Nearest,
                probe::boxed64(2, 1), 2, 1).unwrap(),
            0.75f64, 2.0f64, 12, 2);
    }

    // relative changes are relative to the ORIGINAL ratio also when the current ratio has moved away from it
    #[kani::unwind(30)]
    fn c12_rel_as_abs_ffi_moved(nd) {
        rel_equals_abs!(nd,
            { let mut r = FastFixedIn::<f64>::new(1.5, 3.0, PolynomialDegree::Nearest, 2, 1).unwrap();
              check!(r.set_resample_ratio(3.0, false).is_ok(), "C12.abs_iff[base]"); r },
            1.5f64, 3.0f64, 2, 19);
    }
    #[kani::unwind(16)]
    fn c12_rel_as_abs_ffo_moved(nd) {
        rel_equals_abs!(nd,
            { let mut r = FastFixedOut::<f64>::new(0.75, 2.0, PolynomialDegree::Nearest, 2, 1).unwrap();
              check!(r.set_resample_ratio(1.25, false).is_ok(), "C12.abs_iff[base]"); r },
            0.75f64, 2.0f64, 14, 2);
    }
    #[kani::unwind(16)]
    fn c12_rel_as_abs_sfo_moved(nd) {
        rel_equals_abs!(nd,
            { let mut r = SincFixedOut::<f64>::new_with_interpolator(0.75, 2.0, SincInterpolationType::Nearest,
                probe::boxed64(2, 1), 2, 1).unwrap();
              check!(r.set_resample_ratio(1.25, false).is_ok(), "C12.abs_iff[base]"); r },
            0.75f64, 2.0f64, 12, 2);
    }
    #[kani::unwind(30)]
    fn c12_rel_as_abs_sfi_moved(nd) {
        rel_equals_abs!(nd,
            { let mut r = SincFixedIn::<f64>::new_with_interpolator(1.5, 3.0, SincInterpolationType::Nearest,
                probe::boxed64(2, 1), 2, 1).unwrap();
              check!(r.set_resample_ratio(3.0, false).is_ok(), "C12.abs_iff[base]"); r },
            1.5f64, 3.0f64, 2, 19);
    }


    #[kani::unwind(4)]
    fn c12_rel_ffo_a(nd) {
        let (orig, max) = (0.75f64, 3.0f64);
        let mut r = FastFixedOut::<f64>::new(orig, max, PolynomialDegree::Cubic, 2, 1).unwrap();
        rel_checks!(nd, r, orig, max);
        forget(r);
    }
    #[kani::unwind(6)]
    fn c12_rel_sfo_a(nd) {
        let (orig, max) = (1.25f64, 1.5f64);
        let mut r = SincFixedOut::<f64>::new_with_interpolator(
            orig, max, SincInterpolationType::Nearest, probe::boxed64(2, 1), 2, 1).unwrap();
        rel_checks!(nd, r, orig, max);
        forget(r);
    }

    // ---- two successive chunk-size changes: the accepted range never depends on the current size
    #[kani::unwind(6)]
    fn c12_chunk_twice(nd) {
        let mut a = SincFixedIn::<f64>::new_with_interpolator(
            1.0, 2.0, SincInterpolationType::Nearest, probe::boxed64(2, 1), 5, 1).unwrap();
        let mut b = SincFixedOut::<f64>::new_with_interpolator(
            1.0, 2.0, SincInterpolationType::Nearest, probe::boxed64(2, 1), 5, 1).unwrap();
        let c1 = nd.usize();
        let c2 = nd.usize();
        let ra1 = a.set_chunk_size(c1);
        let rb1 = b.set_chunk_size(c1);
        let ra2 = a.set_chunk_size(c2);
        let rb2 = b.set_chunk_size(c2);
        check!(ra1.is_ok() == (c1 >= 1 && c1 <= 5) && rb1.is_ok() == (c1 >= 1 && c1 <= 5), "C12.chunk_iff[base]");
        check!(ra2.is_ok() == (c2 >= 1 && c2 <= 5) && rb2.is_ok() == (c2 >= 1 && c2 <= 5), "C12.chunk_iff_second[base]");
        if let Err(ResampleError::InvalidChunkSize { max, requested }) = &ra2 {
            check!(*max == 5 && *requested == c2, "C12.chunk_err_fields[base]");
        }
        let want = if c2 >= 1 && c2 <= 5 { c2 } else if c1 >= 1 && c1 <= 5 { c1 } else { 5 };
        check!(a.input_frames_next() == want && b.output_frames_next() == want, "C12.chunk_getter[base]");
        check!(a.input_frames_max() == 5 && b.output_frames_max() == 5, "C12.chunk_max_unchanged[base]");
        cover!(ra1.is_ok() && ra2.is_ok() && c2 > c1, "shrink then grow accepted");
        forget(a); forget(b);
    }

    // ---- a rejected call changes nothing: the next call equals a twin's
    #[kani::unwind(12)]
    fn c12_rejected_noop_ffo(nd) {
        let mk = || FastFixedOut::<f64>::new(1.0, 2.0, PolynomialDegree::Linear, 2, 1).unwrap();
        let mut a = mk();
        let mut b = mk();
        let r = nd.f64();
        let ramp = nd.bool();
        let res = a.set_resample_ratio(r, ramp);
        nd.assume(res.is_err());
        let x = nd.f64();
        let res2 = a.set_resample_ratio_relative(x, ramp);
        nd.assume(res2.is_err());
        check!(a.input_frames_next() == b.input_frames_next(), "C12.rejected_noop_getters[base]");
        let mut xin = [0.0f64; 8];
        let mut i = 0;
        while i < 8 { xin[i] = (probe::BASE + i) as f64; i += 1; }
        let mut oa = [SENT; 2];
        let mut ob = [SENT; 2];
        let ra = a.process_into_buffer(&[&xin[..]], &mut [&mut oa[..]], None);
        let rb = b.process_into_buffer(&[&xin[..]], &mut [&mut ob[..]], None);
        check!(ra.is_ok() && rb.is_ok(), "C12.rejected_noop_ok[base]");
        check!(oa[0].to_bits() == ob[0].to_bits() && oa[1].to_bits() == ob[1].to_bits(),
            "C12.rejected_noop_output[base]");
        check!(a.input_frames_next() == b.input_frames_next(), "C12.rejected_noop_next[base]");
        cover!(r.is_nan(), "nan rejected");
        cover!(r > 2.0, "above range rejected");
        forget(a);
        forget(b);
    }

    // ---- synchronous resamplers: never adjustable
    #[kani::unwind(12)]
    #[kani::stub(realfft::RealFftPlanner::<f64>::new, crate::stubs::planner_new)]
    #[kani::stub(realfft::RealFftPlanner::<f64>::plan_fft_forward, crate::stubs::plan_fwd)]
    #[kani::stub(realfft::RealFftPlanner::<f64>::plan_fft_inverse, crate::stubs::plan_inv)]
    #[kani::stub(rubato::sinc::make_sincs, crate::stubs::make_sincs_unit)]
    fn c12_sync(nd) {
        let r = nd.f64();
        let ramp = nd.bool();
        let c = nd.usize();
        let mut a = FftFixedIn::<f64>::new(2, 3, 2, 1, 1).unwrap();
        check!(kind(&a.set_resample_ratio(r, ramp)) == EK::Sync, "C12.sync_abs[base]");
        check!(kind(&a.set_resample_ratio_relative(r, ramp)) == EK::Sync, "C12.sync_rel[base]");
        check!(kind(&a.set_chunk_size(c)) == EK::ChunkNA, "C12.chunk_na[base]");
        let mut b = FftFixedOut::<f64>::new(2, 3, 3, 1, 1).unwrap();
        check!(kind(&b.set_resample_ratio(r, ramp)) == EK::Sync, "C12.sync_abs[base]");
        check!(kind(&b.set_resample_ratio_relative(r, ramp)) == EK::Sync, "C12.sync_rel[base]");
        check!(kind(&b.set_chunk_size(c)) == EK::ChunkNA, "C12.chunk_na[base]");
        let mut d = FftFixedInOut::<f64>::new(2, 3, 2, 1).unwrap();
        check!(kind(&d.set_resample_ratio(r, ramp)) == EK::Sync, "C12.sync_abs[base]");
        check!(kind(&d.set_resample_ratio_relative(r, ramp)) == EK::Sync, "C12.sync_rel[base]");
        check!(kind(&d.set_chunk_size(c)) == EK::ChunkNA, "C12.chunk_na[base]");
        cover!(r == 1.5, "in-range-looking value reaches the sync setters");
        forget(a); forget(b); forget(d);
    }

    // ---- chunk size: polynomial types are not adjustable
    #[kani::unwind(4)]
    fn c12_chunk_na_fast(nd) {
        let c = nd.usize();
        let mut a = FastFixedIn::<f64>::new(1.0, 2.0, PolynomialDegree::Cubic, 3, 1).unwrap();
        let mut b = FastFixedOut::<f32>::new(1.0, 2.0, PolynomialDegree::Cubic, 3, 1).unwrap();
        let g = (a.input_frames_next(), b.output_frames_next(), b.input_frames_next());
        check!(kind(&a.set_chunk_size(c)) == EK::ChunkNA, "C12.chunk_na[base]");
        check!(kind(&b.set_chunk_size(c)) == EK::ChunkNA, "C12.chunk_na[base]");
        check!(g == (a.input_frames_next(), b.output_frames_next(), b.input_frames_next()),
            "C12.chunk_na_unchanged[base]");
        cover!(c == 2, "valid-looking size reaches the setter");
        forget(a); forget(b);
    }

    // ---- chunk size on SincFixedIn: accept iff 1..=max, then consume exactly c
    #[kani::unwind(20)]
    fn c12_chunk_sfi(nd) {
        let mut a = SincFixedIn::<f64>::new_with_interpolator(
            1.0, 2.0, SincInterpolationType::Nearest, probe::boxed64(2, 1), 4, 1).unwrap();
        let c = nd.usize();
        let res = a.set_chunk_size(c);
        check!(res.is_ok() == (c >= 1 && c <= 4), "C12.chunk_iff[base]");
        match &res {
            Err(ResampleError::InvalidChunkSize { max, requested }) => {
                check!(*max == 4 && *requested == c, "C12.chunk_err_fields[base]");
                check!(a.input_frames_next() == 4, "C12.chunk_rejected_unchanged[base]");
            }
            Err(_) => { check!(false, "C12.chunk_err_variant[base]"); }
            Ok(()) => {
                check!(a.input_frames_next() == c, "C12.chunk_getter[base]");
                check!(a.input_frames_max() == 4, "C12.chunk_max_unchanged[base]");
                let xin = [1.0f64; 4];
                let mut o = [SENT; 14];
                let r = a.process_into_buffer(&[&xin[..c]], &mut [&mut o[..]], None);
                match r {
                    Ok((ni, _)) => { check!(ni == c, "C12.chunk_consumed[base]"); }
                    Err(_) => { check!(false, "C12.chunk_call_ok[base]"); }
                }
            }
        }
        cover!(res.is_ok() && c == 1, "smallest accepted");
        cover!(res.is_ok() && c == 4, "largest accepted");
        cover!(res.is_err() && c == 0, "zero rejected");
        cover!(res.is_err() && c == 5, "max+1 rejected");
        forget(a);
    }

    #[kani::unwind(20)]
    fn c12_chunk_sfo(nd) {
        let mut a = SincFixedOut::<f64>::new_with_interpolator(
            1.0, 2.0, SincInterpolationType::Nearest, probe::boxed64(2, 1), 4, 1).unwrap();
        let c = nd.usize();
        let next0 = a.input_frames_next();
        let res = a.set_chunk_size(c);
        check!(res.is_ok() == (c >= 1 && c <= 4), "C12.chunk_iff[base]");
        match &res {
            Err(ResampleError::InvalidChunkSize { max, requested }) => {
                check!(*max == 4 && *requested == c, "C12.chunk_err_fields[base]");
                check!(a.output_frames_next() == 4 && a.input_frames_next() == next0,
                    "C12.chunk_rejected_unchanged[base]");
            }
            Err(_) => { check!(false, "C12.chunk_err_variant[base]"); }
            Ok(()) => {
                check!(a.output_frames_next() == c, "C12.chunk_getter[base]");
                check!(a.output_frames_max() == 4, "C12.chunk_max_unchanged[base]");
                let n_in = a.input_frames_next();
                crate::fit!(nd, n_in <= 12, "C12.demand_fits_scenario_bound[base]");
                let xin = [1.0f64; 12];
                let mut o = [SENT; 4];
                let r = a.process_into_buffer(&[&xin[..n_in]], &mut [&mut o[..]], None);
                match r {
                    Ok((_, no)) => {
                        check!(no == c, "C12.chunk_produced[base]");
                        let mut w = 0;
                        let mut i = 0;
                        while i < 4 { if o[i] != SENT { w = i + 1; } i += 1; }
                        check!(w == c, "C12.chunk_written[base]");
                    }
                    Err(_) => { check!(false, "C12.chunk_call_ok[base]"); }
                }
            }
        }
        cover!(res.is_ok() && c == 1, "smallest accepted");
        cover!(res.is_ok() && c == 4, "largest accepted");
        cover!(res.is_err() && c == 0, "zero rejected");
        forget(a);
    }

    // ---- vacuity witness for the family: must FAIL
    #[kani::unwind(4)]
    fn c12_witness(nd) {
        let (orig, max) = (1.5f64, 2.0f64);
        let mut r = FastFixedIn::<f64>::new(orig, max, PolynomialDegree::Nearest, 2, 1).unwrap();
        let ok = abs_checks!(nd, r, orig, max);
        check!(!ok, "WITNESS.c12");
        forget(r);
    }
}
