//! C03 / C04 / C10 — harnesses for recorded findings and their regions:
//! large ratio jumps on the fixed-input types (region `recip_span_ge3`),
//! constructor vs reset input-need formulas (symbolic constructor ratio).
use crate::drive::*;
use crate::probe;
use crate::util::*;
use crate::{check, cover, harnesses, obs_checks};
use rubato::{
    FastFixedIn, FastFixedOut, PolynomialDegree, Resampler, SincFixedIn, SincFixedOut,
    SincInterpolationType,
};

harnesses! {
    // ---- region recip_span_ge3: a jump between reciprocal ratios that differ by >= 3 frames.
    // FastFixedIn chunk 2, range [1/8, 8]: six calls at 1/8 park the read position far back,
    // then any ratio with 1/ratio <= 5 (span >= 3).
    #[kani::unwind(34)]
    fn c03_ffi_big_jump(nd) {
        let mut r = FastFixedIn::<f64>::new(1.0, 8.0, PolynomialDegree::Nearest, 2, 1).unwrap();
        let mut pos = 0usize;
        let mut xin = [0.0f64; 4];
        let mut out = [0.0f64; 30];
        check!(r.set_resample_ratio(0.125, false).is_ok(), "C03.warmup_setter_ok[recip_span_ge3]");
        let mut k = 0;
        while k < 6 {
            let o = call1(nd, &mut r, &mut pos, 0, 0, &mut xin, &mut out);
            obs_checks!(o, false, "recip_span_ge3");
            k += 1;
        }
        let kk = nd.u8();
        let newr = (kk as f64) / 8.0;
        nd.assume(newr >= 0.2);
        let ramp = nd.bool();
        nd.assume(r.set_resample_ratio(newr, ramp).is_ok());
        let o = call1(nd, &mut r, &mut pos, 0, 0, &mut xin, &mut out);
        obs_checks!(o, false, "recip_span_ge3");
        cover!(o.ok, "call returned");
        forget(r);
    }
    #[kani::unwind(34)]
    fn c03_ffi_big_jump_kf(nd) {
        let mut r = FastFixedIn::<f64>::new(1.0, 8.0, PolynomialDegree::Nearest, 2, 1).unwrap();
        let mut pos = 0usize;
        let mut xin = [0.0f64; 4];
        let mut out = [0.0f64; 30];
        check!(r.set_resample_ratio(0.125, false).is_ok(), "C03.warmup_setter_ok[recip_span_ge3]");
        let mut k = 0;
        while k < 6 {
            let o = call1(nd, &mut r, &mut pos, 0, 0, &mut xin, &mut out);
            obs_checks!(o, false, "recip_span_ge3");
            k += 1;
        }
        // concrete witness of F5: stepped jump from 1/8 to 2
        check!(r.set_resample_ratio(2.0, false).is_ok(), "C03.warmup_setter_ok[recip_span_ge3]");
        let o = call1(nd, &mut r, &mut pos, 0, 0, &mut xin, &mut out);
        obs_checks!(o, false, "recip_span_ge3");
        cover!(o.ok, "call returned");
        forget(r);
    }

    // ---- constructor vs reset: the input need after reset() must equal the fresh one for
    // every constructor ratio (symbolic constructor: allowed here, no processing call)
    #[kani::unwind(20)]
    fn c10_sfo_ctor_ratio(nd) {
        let ratio = nd.f64();
        nd.assume(ratio >= 0.5 && ratio <= 2.0);
        let mut r = SincFixedOut::<f64>::new_with_interpolator(ratio, 1.0, SincInterpolationType::Nearest, probe::boxed64(2, 1), 2, 1).unwrap();
        let g0 = (r.input_frames_next(), r.input_frames_max(), r.output_frames_next(), r.output_delay());
        r.reset();
        let g1 = (r.input_frames_next(), r.input_frames_max(), r.output_frames_next(), r.output_delay());
        check!(g0.0 == g1.0, "C10.getter_input_frames_next[base]");
        check!(g0.1 == g1.1 && g0.2 == g1.2 && g0.3 == g1.3, "C10.getter_max[base]");
        check!(g0.0 <= g0.1, "C04.next_le_max_in[base]");
        cover!(ratio < 0.9999999 && ratio > 0.99, "ratio just below one");
        forget(r);
    }
    #[kani::unwind(36)]
    fn c10_ffo_ctor_ratio(nd) {
        let ratio = nd.f64();
        nd.assume(ratio >= 0.5 && ratio <= 2.0);
        let mut r = FastFixedOut::<f64>::new(ratio, 1.0, PolynomialDegree::Nearest, 2, 1).unwrap();
        let g0 = (r.input_frames_next(), r.input_frames_max(), r.output_frames_next(), r.output_delay());
        r.reset();
        let g1 = (r.input_frames_next(), r.input_frames_max(), r.output_frames_next(), r.output_delay());
        check!(g0.0 == g1.0, "C10.getter_input_frames_next[base]");
        check!(g0.1 == g1.1 && g0.2 == g1.2 && g0.3 == g1.3, "C10.getter_max[base]");
        check!(g0.0 <= g0.1, "C04.next_le_max_in[base]");
        forget(r);
    }
}
