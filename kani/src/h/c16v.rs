//! C16 (continued) — the object-safe VecResampler wrapper forwards every
//! method unchanged. Only `VecResampler` is imported here; the concrete twin
//! is driven through fully qualified `rubato::Resampler::` calls.
use crate::drive::fill_line;
use crate::util::*;
use crate::{check, cover, harnesses};
use rubato::{FastFixedOut, PolynomialDegree, VecResampler};
use rubato::Resampler as R;

harnesses! {
    // ---------------------------------------------------------------- VecResampler object forwards unchanged
    #[kani::unwind(10)]
    fn c16_vec_setters_getters(nd) {
        let mut boxed: Box<dyn VecResampler<f64>> =
            Box::new(FastFixedOut::<f64>::new(0.75, 2.0, PolynomialDegree::Linear, 2, 2).unwrap());
        let mut c = FastFixedOut::<f64>::new(0.75, 2.0, PolynomialDegree::Linear, 2, 2).unwrap();
        let v = nd.f64();
        let ramp = nd.bool();
        let rel = nd.bool();
        let (r1, r2) = if rel {
            (boxed.set_resample_ratio_relative(v, ramp), R::set_resample_ratio_relative(&mut c, v, ramp))
        } else {
            (boxed.set_resample_ratio(v, ramp), R::set_resample_ratio(&mut c, v, ramp))
        };
        check!(kind(&r1) == kind(&r2), "C16.vec_setter_result[base]");
        check!(boxed.input_frames_next() == R::input_frames_next(&c)
            && boxed.output_frames_next() == R::output_frames_next(&c)
            && boxed.input_frames_max() == R::input_frames_max(&c)
            && boxed.output_frames_max() == R::output_frames_max(&c)
            && boxed.output_delay() == R::output_delay(&c)
            && boxed.nbr_channels() == R::nbr_channels(&c), "C16.vec_getters[base]");
        cover!(r1.is_ok() && rel, "relative accepted through the object");
        cover!(r1.is_ok() && !rel && ramp, "absolute ramped accepted through the object");
        cover!(r1.is_err(), "rejected through the object");
        forget(boxed); forget(c);
    }
    #[kani::unwind(10)]
    fn c16_vec_into(nd) {
        let mut boxed: Box<dyn VecResampler<f64>> =
            Box::new(FastFixedOut::<f64>::new(1.0, 2.0, PolynomialDegree::Linear, 2, 1).unwrap());
        let mut c = FastFixedOut::<f64>::new(1.0, 2.0, PolynomialDegree::Linear, 2, 1).unwrap();
        let mut xv = vec![vec![0.0f64; 6]];
        fill_line(&mut xv[0][..], 0);
        let which: u8 = 0;
        let sent = SENT;
        let mut ov = vec![vec![sent; 2]];
        let mut oc = [sent; 2];
        if which == 0 {
            let ra = boxed.process_into_buffer(&xv, &mut ov, None);
            let rb = R::process_into_buffer(&mut c, &[&xv[0][..]], &mut [&mut oc[..]], None);
            check!(matches!((&ra, &rb), (Ok(x), Ok(y)) if x == y), "C16.vec_into_result[base]");
            check!(ov[0][0].to_bits() == oc[0].to_bits() && ov[0][1].to_bits() == oc[1].to_bits(), "C16.vec_into_values[base]");
        } else if which == 1 {
            let ra = boxed.process(&xv, None);
            let rb = R::process_into_buffer(&mut c, &[&xv[0][..]], &mut [&mut oc[..]], None);
            match (&ra, &rb) {
                (Ok(v), Ok((_, cnt))) => {
                    check!(v.len() == 1 && v[0].len() == *cnt && *cnt == 2, "C16.vec_process_lengths[base]");
                    if v.len() == 1 && v[0].len() == 2 {
                        check!(v[0][0].to_bits() == oc[0].to_bits() && v[0][1].to_bits() == oc[1].to_bits(), "C16.vec_process_values[base]");
                    }
                }
                _ => { check!(false, "C16.vec_process_result[base]"); }
            }
            forget(ra);
        } else if which == 2 {
            // partial through the object: Some(short) and the concrete twin
            let short = vec![vec![1.5f64, 2.5, 3.5]];
            let ra = boxed.process_partial_into_buffer(Some(&short), &mut ov, None);
            let rb = R::process_partial_into_buffer(&mut c, Some(&[&short[0][..]]), &mut [&mut oc[..]], None);
            check!(matches!((&ra, &rb), (Ok(x), Ok(y)) if x == y), "C16.vec_partial_result[base]");
            check!(ov[0][0].to_bits() == oc[0].to_bits() && ov[0][1].to_bits() == oc[1].to_bits(), "C16.vec_partial_values[base]");
            forget(short);
        } else {
            let ra = boxed.process_partial(None, None);
            let none: Option<&[&[f64]]> = None;
            let rb = R::process_partial_into_buffer(&mut c, none, &mut [&mut oc[..]], None);
            match (&ra, &rb) {
                (Ok(v), Ok((_, cnt))) => {
                    check!(v.len() == 1 && v[0].len() == *cnt, "C16.vec_process_partial_lengths[base]");
                    if v.len() == 1 && v[0].len() == 2 {
                        check!(v[0][0].to_bits() == oc[0].to_bits() && v[0][1].to_bits() == oc[1].to_bits(), "C16.vec_process_partial_values[base]");
                    }
                }
                _ => { check!(false, "C16.vec_process_partial_result[base]"); }
            }
            forget(ra);
        }
        check!(boxed.input_frames_next() == R::input_frames_next(&c), "C16.vec_state[base]");
        forget(xv); forget(ov);
        forget(boxed); forget(c);
    }
    #[kani::unwind(10)]
    fn c16_vec_process(nd) {
        let mut boxed: Box<dyn VecResampler<f64>> =
            Box::new(FastFixedOut::<f64>::new(1.0, 2.0, PolynomialDegree::Linear, 2, 1).unwrap());
        let mut c = FastFixedOut::<f64>::new(1.0, 2.0, PolynomialDegree::Linear, 2, 1).unwrap();
        let mut xv = vec![vec![0.0f64; 6]];
        fill_line(&mut xv[0][..], 0);
        let which: u8 = 1;
        let sent = SENT;
        let mut ov = vec![vec![sent; 2]];
        let mut oc = [sent; 2];
        if which == 0 {
            let ra = boxed.process_into_buffer(&xv, &mut ov, None);
            let rb = R::process_into_buffer(&mut c, &[&xv[0][..]], &mut [&mut oc[..]], None);
            check!(matches!((&ra, &rb), (Ok(x), Ok(y)) if x == y), "C16.vec_into_result[base]");
            check!(ov[0][0].to_bits() == oc[0].to_bits() && ov[0][1].to_bits() == oc[1].to_bits(), "C16.vec_into_values[base]");
        } else if which == 1 {
            let ra = boxed.process(&xv, None);
            let rb = R::process_into_buffer(&mut c, &[&xv[0][..]], &mut [&mut oc[..]], None);
            match (&ra, &rb) {
                (Ok(v), Ok((_, cnt))) => {
                    check!(v.len() == 1 && v[0].len() == *cnt && *cnt == 2, "C16.vec_process_lengths[base]");
                    if v.len() == 1 && v[0].len() == 2 {
                        check!(v[0][0].to_bits() == oc[0].to_bits() && v[0][1].to_bits() == oc[1].to_bits(), "C16.vec_process_values[base]");
                    }
                }
                _ => { check!(false, "C16.vec_process_result[base]"); }
            }
            forget(ra);
        } else if which == 2 {
            // partial through the object: Some(short) and the concrete twin
            let short = vec![vec![1.5f64, 2.5, 3.5]];
            let ra = boxed.process_partial_into_buffer(Some(&short), &mut ov, None);
            let rb = R::process_partial_into_buffer(&mut c, Some(&[&short[0][..]]), &mut [&mut oc[..]], None);
            check!(matches!((&ra, &rb), (Ok(x), Ok(y)) if x == y), "C16.vec_partial_result[base]");
            check!(ov[0][0].to_bits() == oc[0].to_bits() && ov[0][1].to_bits() == oc[1].to_bits(), "C16.vec_partial_values[base]");
            forget(short);
        } else {
            let ra = boxed.process_partial(None, None);
            let none: Option<&[&[f64]]> = None;
            let rb = R::process_partial_into_buffer(&mut c, none, &mut [&mut oc[..]], None);
            match (&ra, &rb) {
                (Ok(v), Ok((_, cnt))) => {
                    check!(v.len() == 1 && v[0].len() == *cnt, "C16.vec_process_partial_lengths[base]");
                    if v.len() == 1 && v[0].len() == 2 {
                        check!(v[0][0].to_bits() == oc[0].to_bits() && v[0][1].to_bits() == oc[1].to_bits(), "C16.vec_process_partial_values[base]");
                    }
                }
                _ => { check!(false, "C16.vec_process_partial_result[base]"); }
            }
            forget(ra);
        }
        check!(boxed.input_frames_next() == R::input_frames_next(&c), "C16.vec_state[base]");
        forget(xv); forget(ov);
        forget(boxed); forget(c);
    }
    #[kani::unwind(10)]
    fn c16_vec_partial(nd) {
        let mut boxed: Box<dyn VecResampler<f64>> =
            Box::new(FastFixedOut::<f64>::new(1.0, 2.0, PolynomialDegree::Linear, 2, 1).unwrap());
        let mut c = FastFixedOut::<f64>::new(1.0, 2.0, PolynomialDegree::Linear, 2, 1).unwrap();
        let mut xv = vec![vec![0.0f64; 6]];
        fill_line(&mut xv[0][..], 0);
        let which: u8 = 2;
        let sent = SENT;
        let mut ov = vec![vec![sent; 2]];
        let mut oc = [sent; 2];
        if which == 0 {
            let ra = boxed.process_into_buffer(&xv, &mut ov, None);
            let rb = R::process_into_buffer(&mut c, &[&xv[0][..]], &mut [&mut oc[..]], None);
            check!(matches!((&ra, &rb), (Ok(x), Ok(y)) if x == y), "C16.vec_into_result[base]");
            check!(ov[0][0].to_bits() == oc[0].to_bits() && ov[0][1].to_bits() == oc[1].to_bits(), "C16.vec_into_values[base]");
        } else if which == 1 {
            let ra = boxed.process(&xv, None);
            let rb = R::process_into_buffer(&mut c, &[&xv[0][..]], &mut [&mut oc[..]], None);
            match (&ra, &rb) {
                (Ok(v), Ok((_, cnt))) => {
                    check!(v.len() == 1 && v[0].len() == *cnt && *cnt == 2, "C16.vec_process_lengths[base]");
                    if v.len() == 1 && v[0].len() == 2 {
                        check!(v[0][0].to_bits() == oc[0].to_bits() && v[0][1].to_bits() == oc[1].to_bits(), "C16.vec_process_values[base]");
                    }
                }
                _ => { check!(false, "C16.vec_process_result[base]"); }
            }
            forget(ra);
        } else if which == 2 {
            // partial through the object: Some(short) and the concrete twin
            let short = vec![vec![1.5f64, 2.5, 3.5]];
            let ra = boxed.process_partial_into_buffer(Some(&short), &mut ov, None);
            let rb = R::process_partial_into_buffer(&mut c, Some(&[&short[0][..]]), &mut [&mut oc[..]], None);
            check!(matches!((&ra, &rb), (Ok(x), Ok(y)) if x == y), "C16.vec_partial_result[base]");
            check!(ov[0][0].to_bits() == oc[0].to_bits() && ov[0][1].to_bits() == oc[1].to_bits(), "C16.vec_partial_values[base]");
            forget(short);
        } else {
            let ra = boxed.process_partial(None, None);
            let none: Option<&[&[f64]]> = None;
            let rb = R::process_partial_into_buffer(&mut c, none, &mut [&mut oc[..]], None);
            match (&ra, &rb) {
                (Ok(v), Ok((_, cnt))) => {
                    check!(v.len() == 1 && v[0].len() == *cnt, "C16.vec_process_partial_lengths[base]");
                    if v.len() == 1 && v[0].len() == 2 {
                        check!(v[0][0].to_bits() == oc[0].to_bits() && v[0][1].to_bits() == oc[1].to_bits(), "C16.vec_process_partial_values[base]");
                    }
                }
                _ => { check!(false, "C16.vec_process_partial_result[base]"); }
            }
            forget(ra);
        }
        check!(boxed.input_frames_next() == R::input_frames_next(&c), "C16.vec_state[base]");
        forget(xv); forget(ov);
        forget(boxed); forget(c);
    }
    #[kani::unwind(10)]
    fn c16_vec_process_partial(nd) {
        let mut boxed: Box<dyn VecResampler<f64>> =
            Box::new(FastFixedOut::<f64>::new(1.0, 2.0, PolynomialDegree::Linear, 2, 1).unwrap());
        let mut c = FastFixedOut::<f64>::new(1.0, 2.0, PolynomialDegree::Linear, 2, 1).unwrap();
        let mut xv = vec![vec![0.0f64; 6]];
        fill_line(&mut xv[0][..], 0);
        let which: u8 = 3;
        let sent = SENT;
        let mut ov = vec![vec![sent; 2]];
        let mut oc = [sent; 2];
        if which == 0 {
            let ra = boxed.process_into_buffer(&xv, &mut ov, None);
            let rb = R::process_into_buffer(&mut c, &[&xv[0][..]], &mut [&mut oc[..]], None);
            check!(matches!((&ra, &rb), (Ok(x), Ok(y)) if x == y), "C16.vec_into_result[base]");
            check!(ov[0][0].to_bits() == oc[0].to_bits() && ov[0][1].to_bits() == oc[1].to_bits(), "C16.vec_into_values[base]");
        } else if which == 1 {
            let ra = boxed.process(&xv, None);
            let rb = R::process_into_buffer(&mut c, &[&xv[0][..]], &mut [&mut oc[..]], None);
            match (&ra, &rb) {
                (Ok(v), Ok((_, cnt))) => {
                    check!(v.len() == 1 && v[0].len() == *cnt && *cnt == 2, "C16.vec_process_lengths[base]");
                    if v.len() == 1 && v[0].len() == 2 {
                        check!(v[0][0].to_bits() == oc[0].to_bits() && v[0][1].to_bits() == oc[1].to_bits(), "C16.vec_process_values[base]");
                    }
                }
                _ => { check!(false, "C16.vec_process_result[base]"); }
            }
            forget(ra);
        } else if which == 2 {
            // partial through the object: Some(short) and the concrete twin
            let short = vec![vec![1.5f64, 2.5, 3.5]];
            let ra = boxed.process_partial_into_buffer(Some(&short), &mut ov, None);
            let rb = R::process_partial_into_buffer(&mut c, Some(&[&short[0][..]]), &mut [&mut oc[..]], None);
            check!(matches!((&ra, &rb), (Ok(x), Ok(y)) if x == y), "C16.vec_partial_result[base]");
            check!(ov[0][0].to_bits() == oc[0].to_bits() && ov[0][1].to_bits() == oc[1].to_bits(), "C16.vec_partial_values[base]");
            forget(short);
        } else {
            let ra = boxed.process_partial(None, None);
            let none: Option<&[&[f64]]> = None;
            let rb = R::process_partial_into_buffer(&mut c, none, &mut [&mut oc[..]], None);
            match (&ra, &rb) {
                (Ok(v), Ok((_, cnt))) => {
                    check!(v.len() == 1 && v[0].len() == *cnt, "C16.vec_process_partial_lengths[base]");
                    if v.len() == 1 && v[0].len() == 2 {
                        check!(v[0][0].to_bits() == oc[0].to_bits() && v[0][1].to_bits() == oc[1].to_bits(), "C16.vec_process_partial_values[base]");
                    }
                }
                _ => { check!(false, "C16.vec_process_partial_result[base]"); }
            }
            forget(ra);
        }
        check!(boxed.input_frames_next() == R::input_frames_next(&c), "C16.vec_state[base]");
        forget(xv); forget(ov);
        forget(boxed); forget(c);
    }

}
