//! C13 — malformed arguments yield the matching Err, never a panic, and
//! change nothing. Shapes (channel counts, slice lengths, mask length) are
//! symbolic. Untagged CBMC failures (panics, bounds) in these harnesses
//! belong to C13.
use crate::probe;
use crate::util::*;
use crate::{check, cover, harnesses, unroll32};
use rubato::{
    FastFixedIn, FastFixedOut, FftFixedIn, FftFixedInOut, FftFixedOut, PolynomialDegree,
    ResampleError, Resampler, ResamplerConstructionError, SincFixedIn, SincFixedOut,
    SincInterpolationParameters, SincInterpolationType, WindowFunction,
};

/// What a malformed call may legitimately report. No order of the checks is
/// assumed: any violated condition is an acceptable answer.
#[derive(Clone, Copy)]
pub struct Shape {
    pub c: usize,
    pub need_in: usize,
    pub need_out: usize,
    pub n_in: usize,
    pub n_out: usize,
    pub li: [usize; 3],
    pub lo: [usize; 3],
    pub use_mask: bool,
    pub mlen: usize,
    pub mb: [bool; 4],
}

impl Shape {
    fn mask_ok(&self) -> bool {
        !self.use_mask || self.mlen == self.c
    }
    /// channel `ch` is active (only meaningful when the mask is well-formed)
    fn active(&self, ch: usize) -> bool {
        !self.use_mask || (ch < self.mlen && self.mb[ch])
    }
    pub fn valid(&self) -> bool {
        if self.n_in != self.c || self.n_out != self.c || !self.mask_ok() {
            return false;
        }
        let mut ok = true;
        let c = self.c;
        unroll32!(ch, c, {
            if ch < 3 && self.active(ch) && (self.li[ch] < self.need_in || self.lo[ch] < self.need_out) {
                ok = false;
            }
        });
        ok
    }
    /// is `e` the report of some violated condition, with that condition's values?
    pub fn accepts(&self, e: &ResampleError) -> bool {
        match *e {
            ResampleError::WrongNumberOfInputChannels { expected, actual } => {
                self.n_in != self.c && expected == self.c && actual == self.n_in
            }
            ResampleError::WrongNumberOfOutputChannels { expected, actual } => {
                self.n_out != self.c && expected == self.c && actual == self.n_out
            }
            ResampleError::WrongNumberOfMaskChannels { expected, actual } => {
                !self.mask_ok() && expected == self.c && actual == self.mlen
            }
            ResampleError::InsufficientInputBufferSize { channel, expected, actual } => {
                channel < self.n_in
                    && channel < 3
                    && (!self.mask_ok() || self.active(channel))
                    && self.li[channel] < self.need_in
                    && expected == self.need_in
                    && actual == self.li[channel]
            }
            ResampleError::InsufficientOutputBufferSize { channel, expected, actual } => {
                channel < self.n_out
                    && channel < 3
                    && (!self.mask_ok() || self.active(channel))
                    && self.lo[channel] < self.need_out
                    && expected == self.need_out
                    && actual == self.lo[channel]
            }
            _ => false,
        }
    }
}

/// Draw a symbolic shape around the requirements (c channels).
fn draw<N: crate::nd::Nondet>(nd: &mut N, c: usize, need_in: usize, need_out: usize, maxl_in: usize, maxl_out: usize) -> Shape {
    let n_in = nd.usize_in(0, 3);
    let n_out = nd.usize_in(0, 3);
    let li = [nd.usize_in(0, maxl_in), nd.usize_in(0, maxl_in), nd.usize_in(0, maxl_in)];
    let lo = [nd.usize_in(0, maxl_out), nd.usize_in(0, maxl_out), nd.usize_in(0, maxl_out)];
    let use_mask = nd.bool();
    let mlen = nd.usize_in(0, 4);
    let mb = [nd.bool(), nd.bool(), nd.bool(), nd.bool()];
    Shape { c, need_in, need_out, n_in, n_out, li, lo, use_mask, mlen, mb }
}

/// One malformed-or-valid `process_into_buffer` call on `$r`, all shape
/// assertions, then a valid call compared against the twin `$twin` which never
/// saw the first call (only when the first call failed).
macro_rules! shape_call {
    ($nd:ident, $r:ident, $twin:ident, $T:ty, $c:expr, $MI:expr, $MO:expr, $entry:ident) => {{
        shape_call!($nd, $r, $twin, $T, $c, $MI, $MO, $entry, true)
    }};
    ($nd:ident, $r:ident, $twin:ident, $T:ty, $c:expr, $MI:expr, $MO:expr, $entry:ident, $full:expr) => {{
        let need_in = $r.input_frames_next();
        let need_out = $r.output_frames_next();
        $crate::fit!($nd, need_in + 1 <= $MI && need_out + 1 <= $MO, "C13.demand_fits_scenario_bound[base]");
        let sh = draw($nd, $c, need_in, need_out, need_in + 1, need_out + 1);
        let a0 = [1.0 as $T; $MI];
        let a1 = [2.0 as $T; $MI];
        let a2 = [3.0 as $T; $MI];
        let sent = SENT as $T;
        let mut o0 = [sent; $MO];
        let mut o1 = [sent; $MO];
        let mut o2 = [sent; $MO];
        let g0 = ($r.input_frames_next(), $r.output_frames_next(), $r.input_frames_max(), $r.output_frames_max(), $r.output_delay());
        let res = {
            let ins: [&[$T]; 3] = [&a0[..sh.li[0]], &a1[..sh.li[1]], &a2[..sh.li[2]]];
            let mut outs: [&mut [$T]; 3] = [&mut o0[..sh.lo[0]], &mut o1[..sh.lo[1]], &mut o2[..sh.lo[2]]];
            let mask: Option<&[bool]> = if sh.use_mask { Some(&sh.mb[..sh.mlen]) } else { None };
            shape_call!(@entry $entry, $r, &ins[..sh.n_in], &mut outs[..sh.n_out], mask)
        };
        let valid = sh.valid();
        match &res {
            Ok(_) => {
                check!(valid, "C13.err_expected[base]");
            }
            Err(e) => {
                check!(!valid, "C13.spurious_error[base]");
                if !valid {
                    if sh.mask_ok() {
                        check!(sh.accepts(e), "C13.variant_fields[base]");
                    } else {
                        check!(sh.accepts(e), "C13.variant_fields[mask_len_mismatch]");
                    }
                }
                // wrote nothing
                let mut clean = true;
                unroll32!(i, $MO, {
                    if o0[i] != sent || o1[i] != sent || o2[i] != sent { clean = false; }
                });
                check!(clean, "C13.writes_nothing[base]");
                let g1 = ($r.input_frames_next(), $r.output_frames_next(), $r.input_frames_max(), $r.output_frames_max(), $r.output_delay());
                check!(g0 == g1, "C13.getters_unchanged[base]");
                // a following valid call behaves as on the twin
                if $full {
                let mut p0 = [sent; $MO];
                let mut p1 = [sent; $MO];
                let mut q0 = [sent; $MO];
                let mut q1 = [sent; $MO];
                let x0 = [5.0 as $T; $MI];
                let x1 = [7.0 as $T; $MI];
                let ra = $r.process_into_buffer(&[&x0[..], &x1[..]][..$c], &mut [&mut p0[..], &mut p1[..]][..$c], None);
                let rb = $twin.process_into_buffer(&[&x0[..], &x1[..]][..$c], &mut [&mut q0[..], &mut q1[..]][..$c], None);
                match (ra, rb) {
                    (Ok(ca), Ok(cb)) => {
                        check!(ca == cb, "C13.state_unchanged_counts[base]");
                        let mut same = true;
                        unroll32!(i, $MO, {
                            if p0[i].to_bits() != q0[i].to_bits() || p1[i].to_bits() != q1[i].to_bits() { same = false; }
                        });
                        check!(same, "C13.state_unchanged_output[base]");
                    }
                    _ => { check!(false, "C13.valid_call_after_error_ok[base]"); }
                }
                }
            }
        }
        cover!(res.is_ok(), "valid shape accepted");
        cover!(matches!(res, Err(ResampleError::WrongNumberOfInputChannels { .. })), "input channel error seen");
        cover!(matches!(res, Err(ResampleError::WrongNumberOfOutputChannels { .. })), "output channel error seen");
        cover!(matches!(res, Err(ResampleError::InsufficientInputBufferSize { .. })), "input length error seen");
        cover!(matches!(res, Err(ResampleError::InsufficientOutputBufferSize { .. })), "output length error seen");
        cover!(sh.use_mask && sh.mlen != $c, "wrong mask length reached");
        cover!(res.is_ok() && sh.use_mask && !sh.mb[0] && sh.li[0] == 0, "masked channel with empty slice accepted");
    }};
    (@entry into, $r:ident, $i:expr, $o:expr, $m:expr) => { $r.process_into_buffer($i, $o, $m) };
    (@entry partial, $r:ident, $i:expr, $o:expr, $m:expr) => { $r.process_partial_into_buffer(Some($i), $o, $m) };
}

macro_rules! fft_stubs {
    () => {};
}

harnesses! {
    // ---------------------------------------------------------------- processing calls
    #[kani::unwind(5)]
    fn c13_shape_ffo(nd) {
        let mut r = FastFixedOut::<f64>::new(1.0, 2.0, PolynomialDegree::Nearest, 2, 2).unwrap();
        let mut t = FastFixedOut::<f64>::new(1.0, 2.0, PolynomialDegree::Nearest, 2, 2).unwrap();
        shape_call!(nd, r, t, f64, 2, 8, 4, into);
        forget(r); forget(t);
    }
    #[kani::unwind(5)]
    fn c13_shape_ffi(nd) {
        let mut r = FastFixedIn::<f32>::new(1.0, 1.0, PolynomialDegree::Linear, 2, 2).unwrap();
        let mut t = FastFixedIn::<f32>::new(1.0, 1.0, PolynomialDegree::Linear, 2, 2).unwrap();
        shape_call!(nd, r, t, f32, 2, 4, 14, into);
        forget(r); forget(t);
    }
    #[kani::unwind(5)]
    fn c13_shape_sfo(nd) {
        let mut r = SincFixedOut::<f64>::new_with_interpolator(1.0, 2.0, SincInterpolationType::Nearest, probe::boxed64(2, 1), 2, 2).unwrap();
        let mut t = SincFixedOut::<f64>::new_with_interpolator(1.0, 2.0, SincInterpolationType::Nearest, probe::boxed64(2, 1), 2, 2).unwrap();
        shape_call!(nd, r, t, f64, 2, 6, 4, into);
        forget(r); forget(t);
    }
    #[kani::unwind(5)]
    fn c13_shape_sfi(nd) {
        let mut r = SincFixedIn::<f64>::new_with_interpolator(1.0, 1.0, SincInterpolationType::Linear, probe::boxed64(2, 1), 2, 2).unwrap();
        let mut t = SincFixedIn::<f64>::new_with_interpolator(1.0, 1.0, SincInterpolationType::Linear, probe::boxed64(2, 1), 2, 2).unwrap();
        shape_call!(nd, r, t, f64, 2, 4, 14, into);
        forget(r); forget(t);
    }
    #[kani::unwind(5)]
    fn c13_shape_ffo_after_call(nd) {
        // point in history: after one valid call and a ratio change
        let mut r = FastFixedOut::<f64>::new(1.0, 2.0, PolynomialDegree::Nearest, 2, 2).unwrap();
        let mut t = FastFixedOut::<f64>::new(1.0, 2.0, PolynomialDegree::Nearest, 2, 2).unwrap();
        let x = [1.0f64; 8];
        let mut y0 = [0.0f64; 2];
        let mut y1 = [0.0f64; 2];
        check!(r.process_into_buffer(&[&x[..], &x[..]], &mut [&mut y0[..], &mut y1[..]], None).is_ok(), "C13.history_call_ok[base]");
        check!(t.process_into_buffer(&[&x[..], &x[..]], &mut [&mut y0[..], &mut y1[..]], None).is_ok(), "C13.history_call_ok[base]");
        check!(r.set_resample_ratio(0.75, true).is_ok() && t.set_resample_ratio(0.75, true).is_ok(), "C13.history_setter_ok[base]");
        shape_call!(nd, r, t, f64, 2, 12, 4, into);
        forget(r); forget(t);
    }
    #[kani::unwind(5)]
    fn c13_shape_ffo_partial(nd) {
        // process_partial_into_buffer(Some(..)): input lengths are padded by the wrapper,
        // so only channel counts, mask and output lengths can be malformed
        let mut r = FastFixedOut::<f64>::new(1.0, 2.0, PolynomialDegree::Nearest, 2, 2).unwrap();
        let need_out = r.output_frames_next();
        let n_in = nd.usize_in(0, 3);
        let n_out = nd.usize_in(0, 3);
        let li = [nd.usize_in(0, 7), nd.usize_in(0, 7), nd.usize_in(0, 7)];
        let lo = [nd.usize_in(0, 3), nd.usize_in(0, 3), nd.usize_in(0, 3)];
        let a = [1.0f64; 8];
        let mut o0 = [SENT; 4];
        let mut o1 = [SENT; 4];
        let mut o2 = [SENT; 4];
        let res = {
            let ins: [&[f64]; 3] = [&a[..li[0]], &a[..li[1]], &a[..li[2]]];
            let mut outs: [&mut [f64]; 3] = [&mut o0[..lo[0]], &mut o1[..lo[1]], &mut o2[..lo[2]]];
            r.process_partial_into_buffer(Some(&ins[..n_in]), &mut outs[..n_out], None)
        };
        let out_ok = n_out == 2 && lo[0] >= need_out && lo[1] >= need_out;
        match &res {
            Ok(_) => { check!(out_ok, "C13.err_expected[base]"); }
            Err(ResampleError::WrongNumberOfOutputChannels { expected, actual }) => {
                check!(n_out != 2 && *expected == 2 && *actual == n_out, "C13.variant_fields[base]");
            }
            Err(ResampleError::InsufficientOutputBufferSize { channel, expected, actual }) => {
                check!(*channel < n_out && *channel < 3 && lo[*channel] < need_out && *expected == need_out && *actual == lo[*channel],
                    "C13.variant_fields[base]");
            }
            Err(ResampleError::InsufficientInputBufferSize { channel, expected, actual }) => {
                // an empty input slice is not padded by the wrapper (it is the masked-channel
                // convention): reported as a too-short active channel
                check!(*channel < n_in && *channel < 2 && li[*channel] == 0 && *actual == 0 && *expected == r.input_frames_next(),
                    "C13.variant_fields[base]");
            }
            Err(_) => { check!(false, "C13.variant_fields[base]"); }
        }
        cover!(res.is_ok() && n_in == 1, "partial call with fewer input channels accepted (padding)");
        cover!(res.is_err(), "partial call rejected");
        forget(r);
    }

    // ---------------------------------------------------------------- synchronous types (FFT stubs)
    #[kani::unwind(5)]
    #[kani::stub(realfft::RealFftPlanner::<f64>::new, crate::stubs::planner_new)]
    #[kani::stub(realfft::RealFftPlanner::<f64>::plan_fft_forward, crate::stubs::plan_fwd)]
    #[kani::stub(realfft::RealFftPlanner::<f64>::plan_fft_inverse, crate::stubs::plan_inv)]
    #[kani::stub(rubato::sinc::make_sincs, crate::stubs::make_sincs_unit)]
    fn c13_shape_ftio(nd) {
        let mut r = FftFixedInOut::<f64>::new(2, 3, 2, 2).unwrap();
        let mut t = FftFixedInOut::<f64>::new(2, 3, 2, 2).unwrap();
        shape_call!(nd, r, t, f64, 2, 4, 5, into);
        forget(r); forget(t);
    }
    #[kani::unwind(5)]
    #[kani::stub(realfft::RealFftPlanner::<f64>::new, crate::stubs::planner_new)]
    #[kani::stub(realfft::RealFftPlanner::<f64>::plan_fft_forward, crate::stubs::plan_fwd)]
    #[kani::stub(realfft::RealFftPlanner::<f64>::plan_fft_inverse, crate::stubs::plan_inv)]
    #[kani::stub(rubato::sinc::make_sincs, crate::stubs::make_sincs_unit)]
    fn c13_shape_fti(nd) {
        let mut r = FftFixedIn::<f64>::new(2, 3, 2, 1, 2).unwrap();
        let mut t = FftFixedIn::<f64>::new(2, 3, 2, 1, 2).unwrap();
        shape_call!(nd, r, t, f64, 2, 4, 5, into);
        forget(r); forget(t);
    }
    #[kani::unwind(5)]
    #[kani::stub(realfft::RealFftPlanner::<f64>::new, crate::stubs::planner_new)]
    #[kani::stub(realfft::RealFftPlanner::<f64>::plan_fft_forward, crate::stubs::plan_fwd)]
    #[kani::stub(realfft::RealFftPlanner::<f64>::plan_fft_inverse, crate::stubs::plan_inv)]
    #[kani::stub(rubato::sinc::make_sincs, crate::stubs::make_sincs_unit)]
    fn c13_shape_fto(nd) {
        let mut r = FftFixedOut::<f64>::new(2, 3, 3, 1, 2).unwrap();
        let mut t = FftFixedOut::<f64>::new(2, 3, 3, 1, 2).unwrap();
        shape_call!(nd, r, t, f64, 2, 4, 5, into);
        forget(r); forget(t);
    }

    #[kani::unwind(5)]
    #[kani::stub(realfft::RealFftPlanner::<f64>::new, crate::stubs::planner_new)]
    #[kani::stub(realfft::RealFftPlanner::<f64>::plan_fft_forward, crate::stubs::plan_fwd)]
    #[kani::stub(realfft::RealFftPlanner::<f64>::plan_fft_inverse, crate::stubs::plan_inv)]
    #[kani::stub(rubato::sinc::make_sincs, crate::stubs::make_sincs_unit)]
    fn c13_shape_ftio_lite(nd) {
        let mut r = FftFixedInOut::<f64>::new(2, 3, 2, 2).unwrap();
        shape_call!(nd, r, r, f64, 2, 4, 5, into, false);
        forget(r);
    }
    #[kani::unwind(5)]
    #[kani::stub(realfft::RealFftPlanner::<f64>::new, crate::stubs::planner_new)]
    #[kani::stub(realfft::RealFftPlanner::<f64>::plan_fft_forward, crate::stubs::plan_fwd)]
    #[kani::stub(realfft::RealFftPlanner::<f64>::plan_fft_inverse, crate::stubs::plan_inv)]
    #[kani::stub(rubato::sinc::make_sincs, crate::stubs::make_sincs_unit)]
    fn c13_shape_fti_lite(nd) {
        let mut r = FftFixedIn::<f64>::new(2, 3, 2, 1, 2).unwrap();
        shape_call!(nd, r, r, f64, 2, 4, 5, into, false);
        forget(r);
    }
    #[kani::unwind(5)]
    #[kani::stub(realfft::RealFftPlanner::<f64>::new, crate::stubs::planner_new)]
    #[kani::stub(realfft::RealFftPlanner::<f64>::plan_fft_forward, crate::stubs::plan_fwd)]
    #[kani::stub(realfft::RealFftPlanner::<f64>::plan_fft_inverse, crate::stubs::plan_inv)]
    #[kani::stub(rubato::sinc::make_sincs, crate::stubs::make_sincs_unit)]
    fn c13_shape_fto_lite(nd) {
        let mut r = FftFixedOut::<f64>::new(2, 3, 3, 1, 2).unwrap();
        shape_call!(nd, r, r, f64, 2, 4, 5, into, false);
        forget(r);
    }

    // FftFixedIn with a chunk smaller than the FFT block: the first call completes no block and
    // advertises ZERO output frames - the output shape must still be validated
    #[kani::unwind(5)]
    #[kani::stub(realfft::RealFftPlanner::<f64>::new, crate::stubs::planner_new)]
    #[kani::stub(realfft::RealFftPlanner::<f64>::plan_fft_forward, crate::stubs::plan_fwd)]
    #[kani::stub(realfft::RealFftPlanner::<f64>::plan_fft_inverse, crate::stubs::plan_inv)]
    #[kani::stub(rubato::sinc::make_sincs, crate::stubs::make_sincs_unit)]
    fn c13_shape_fti_zero_output_lite(nd) {
        let mut r = FftFixedIn::<f64>::new(2, 3, 1, 1, 2).unwrap();
        check!(r.output_frames_next() == 0, "C13.harness_zero_output_config[base]");
        shape_call!(nd, r, r, f64, 2, 3, 4, into, false);
        forget(r);
    }

    // a failed call in the middle of a stream: history with signal, one of three concrete malformed
    // calls (symbolic selector), then a valid call compared with a twin that never saw the failure
    #[kani::unwind(10)]
    fn c13_ffo_failed_call_midstream(nd) {
        let mut r = FastFixedOut::<f64>::new(0.75, 1.0, PolynomialDegree::Linear, 2, 1).unwrap();
        let mut t = FastFixedOut::<f64>::new(0.75, 1.0, PolynomialDegree::Linear, 2, 1).unwrap();
        let mut x = [0.0f64; 24];
        crate::drive::fill_line(&mut x[..], 0);
        let mut y = [SENT; 2];
        let mut pos = 0usize;
        let mut k = 0;
        while k < 2 {
            let n = r.input_frames_next();
            check!(n == t.input_frames_next(), "C13.harness_twins_in_step[base]");
            crate::fit!(nd, pos + n <= 24, "C13.demand_fits_scenario_bound[base]");
            check!(r.process_into_buffer(&[&x[pos..pos + n]], &mut [&mut y[..]], None).is_ok(), "C03.ok[base]");
            check!(t.process_into_buffer(&[&x[pos..pos + n]], &mut [&mut y[..]], None).is_ok(), "C03.ok[base]");
            pos += n;
            k += 1;
        }
        let which = nd.u8();
        nd.assume(which < 3);
        let n = r.input_frames_next();
        crate::fit!(nd, pos + n <= 24 && n >= 1, "C13.demand_fits_scenario_bound[base]");
        let mut z = [SENT; 2];
        let e = if which == 0 {
            r.process_into_buffer(&[&x[pos..pos + n - 1]], &mut [&mut z[..]], None)          // input one frame short
        } else if which == 1 {
            r.process_into_buffer(&[&x[pos..pos + n]], &mut [&mut z[..1]], None)              // output one frame short
        } else {
            r.process_into_buffer(&[&x[pos..pos + n], &x[pos..pos + n]], &mut [&mut z[..]], None) // too many input channels
        };
        check!(e.is_err(), "C13.err_expected[base]");
        check!(z[0] == SENT && z[1] == SENT, "C13.writes_nothing[base]");
        check!(r.input_frames_next() == n, "C13.getters_unchanged[base]");
        let mut a = [SENT; 2];
        let mut b = [SENT; 2];
        let ra = r.process_into_buffer(&[&x[pos..pos + n]], &mut [&mut a[..]], None);
        let rb = t.process_into_buffer(&[&x[pos..pos + n]], &mut [&mut b[..]], None);
        check!(matches!((&ra, &rb), (Ok(p), Ok(q)) if p == q), "C13.state_unchanged_counts[base]");
        check!(a[0].to_bits() == b[0].to_bits() && a[1].to_bits() == b[1].to_bits(), "C13.state_unchanged_output[base]");
        cover!(which == 1, "short output variant");
        forget(r); forget(t);
    }

    // a failed call while a ramped ratio change is pending must not consume the ramp
    #[kani::unwind(30)]
    fn c13_ffi_failed_call_ramp_pending(nd) {
        let mut r = FastFixedIn::<f64>::new(1.0, 2.0, PolynomialDegree::Linear, 10, 1).unwrap();
        let mut t = FastFixedIn::<f64>::new(1.0, 2.0, PolynomialDegree::Linear, 10, 1).unwrap();
        check!(r.set_resample_ratio(1.5, true).is_ok() && t.set_resample_ratio(1.5, true).is_ok(), "C12.abs_iff[base]");
        let mut x = [0.0f64; 10];
        crate::drive::fill_line(&mut x[..], 0);
        let which = nd.bool();
        let no = r.output_frames_next();
        crate::fit!(nd, no <= 24 && no >= 1, "C13.demand_fits_scenario_bound[base]");
        let mut z = [SENT; 24];
        let e = if which {
            r.process_into_buffer(&[&x[..9]], &mut [&mut z[..no]], None)            // input one frame short
        } else {
            r.process_into_buffer(&[&x[..]], &mut [&mut z[..no - 1]], None)          // output one frame short
        };
        check!(e.is_err(), "C13.err_expected[base]");
        let mut clean = true;
        unroll32!(i, 24, { if z[i].to_bits() != SENT.to_bits() { clean = false; } });
        check!(clean, "C13.writes_nothing[base]");
        check!(r.input_frames_next() == t.input_frames_next() && r.output_frames_next() == t.output_frames_next(),
            "C13.getters_unchanged[base]");
        let mut a = [SENT; 24];
        let mut b = [SENT; 24];
        let ra = r.process_into_buffer(&[&x[..]], &mut [&mut a[..]], None);
        let rb = t.process_into_buffer(&[&x[..]], &mut [&mut b[..]], None);
        check!(matches!((&ra, &rb), (Ok(p), Ok(q)) if p == q), "C13.state_unchanged_counts[base]");
        let mut same = true;
        unroll32!(i, 24, { if a[i].to_bits() != b[i].to_bits() { same = false; } });
        check!(same, "C13.state_unchanged_output[base]");
        check!(r.output_frames_next() == t.output_frames_next(), "C13.getters_unchanged[base]");
        cover!(matches!(&ra, Ok((_, n)) if *n > 0), "valid call produced frames");
        cover!(!which, "short output variant");
        forget(r); forget(t);
    }
    #[kani::unwind(20)]
    fn c13_sfo_failed_call_ramp_pending(nd) {
        probe::reset_flags();
        let mk = || SincFixedOut::<f64>::new_with_interpolator(1.0, 2.0, SincInterpolationType::Linear, probe::boxed64(2, 2), 3, 1).unwrap();
        let (mut r, mut t) = (mk(), mk());
        check!(r.set_resample_ratio(0.5, true).is_ok() && t.set_resample_ratio(0.5, true).is_ok(), "C12.abs_iff[base]");
        let mut x = [0.0f64; 12];
        crate::drive::fill_line(&mut x[..], 0);
        let which = nd.bool();
        let n = r.input_frames_next();
        crate::fit!(nd, n <= 12 && n >= 1, "C13.demand_fits_scenario_bound[base]");
        let mut z = [SENT; 3];
        let e = if which {
            r.process_into_buffer(&[&x[..n - 1]], &mut [&mut z[..]], None)
        } else {
            r.process_into_buffer(&[&x[..n]], &mut [&mut z[..2]], None)
        };
        check!(e.is_err(), "C13.err_expected[base]");
        check!(z[0] == SENT && z[1] == SENT && z[2] == SENT, "C13.writes_nothing[base]");
        check!(r.input_frames_next() == t.input_frames_next() && r.output_frames_next() == t.output_frames_next(),
            "C13.getters_unchanged[base]");
        let mut a = [SENT; 3];
        let mut b = [SENT; 3];
        let ra = r.process_into_buffer(&[&x[..n]], &mut [&mut a[..]], None);
        let rb = t.process_into_buffer(&[&x[..n]], &mut [&mut b[..]], None);
        check!(matches!((&ra, &rb), (Ok(p), Ok(q)) if p == q), "C13.state_unchanged_counts[base]");
        check!(a[0].to_bits() == b[0].to_bits() && a[1].to_bits() == b[1].to_bits() && a[2].to_bits() == b[2].to_bits(),
            "C13.state_unchanged_output[base]");
        check!(r.input_frames_next() == t.input_frames_next(), "C13.getters_unchanged[base]");
        forget(r); forget(t);
    }

    // ---------------------------------------------------------------- process(): the allocating wrapper
    #[kani::unwind(5)]
    fn c13_process_mask(nd) {
        // process() builds its output from the mask before delegating
        let mut r = FastFixedOut::<f64>::new(1.0, 2.0, PolynomialDegree::Nearest, 2, 2).unwrap();
        let x = [1.0f64; 8];
        let mlen = nd.usize_in(0, 4);
        let mb = [nd.bool(), nd.bool(), nd.bool(), nd.bool()];
        let res = r.process(&[&x[..], &x[..]], Some(&mb[..mlen]));
        match &res {
            Ok(v) => {
                check!(mlen == 2, "C13.err_expected[mask_len_mismatch]");
                check!(v.len() == 2, "C13.process_shape[base]");
            }
            Err(ResampleError::WrongNumberOfMaskChannels { expected, actual }) => {
                check!(mlen != 2 && *expected == 2 && *actual == mlen, "C13.variant_fields[mask_len_mismatch]");
            }
            Err(_) => { check!(false, "C13.variant_fields[mask_len_mismatch]"); }
        }
        cover!(res.is_err(), "process rejected a bad mask");
        cover!(res.is_ok(), "process accepted a good mask");
        forget(res);
        forget(r);
    }

    // ---------------------------------------------------------------- constructors
    #[kani::unwind(6)]
    fn c13_ctor_fast(nd) {
        let ratio = nd.f64();
        let max = nd.f64();
        nd.assume(!ratio.is_nan() && !max.is_nan());
        let a = FastFixedIn::<f64>::new(ratio, max, PolynomialDegree::Cubic, 2, 1);
        match &a {
            Ok(_) => { check!(ratio > 0.0 && max >= 1.0, "C13.ctor_err_expected[base]"); }
            Err(ResamplerConstructionError::InvalidRatio(v)) => { check!(ratio <= 0.0 && v.to_bits() == ratio.to_bits(), "C13.ctor_variant[base]"); }
            Err(ResamplerConstructionError::InvalidRelativeRatio(v)) => { check!(max < 1.0 && v.to_bits() == max.to_bits(), "C13.ctor_variant[base]"); }
            Err(_) => { check!(false, "C13.ctor_variant[base]"); }
        }
        cover!(a.is_ok(), "constructor accepted");
        cover!(matches!(a, Err(ResamplerConstructionError::InvalidRatio(_))), "InvalidRatio seen");
        cover!(matches!(a, Err(ResamplerConstructionError::InvalidRelativeRatio(_))), "InvalidRelativeRatio seen");
        forget(a);
    }
    #[kani::unwind(6)]
    fn c13_ctor_sinc(nd) {
        let ratio = nd.f64();
        let max = nd.f64();
        nd.assume(!ratio.is_nan() && !max.is_nan());
        let a = SincFixedIn::<f64>::new_with_interpolator(ratio, max, SincInterpolationType::Cubic, probe::boxed64(2, 1), 2, 1);
        match &a {
            Ok(_) => { check!(ratio > 0.0 && max >= 1.0, "C13.ctor_err_expected[base]"); }
            Err(ResamplerConstructionError::InvalidRatio(v)) => { check!(ratio <= 0.0 && v.to_bits() == ratio.to_bits(), "C13.ctor_variant[base]"); }
            Err(ResamplerConstructionError::InvalidRelativeRatio(v)) => { check!(max < 1.0 && v.to_bits() == max.to_bits(), "C13.ctor_variant[base]"); }
            Err(_) => { check!(false, "C13.ctor_variant[base]"); }
        }
        cover!(a.is_ok(), "constructor accepted");
        forget(a);
    }
    #[kani::unwind(10)]
    fn c13_ctor_out_concrete(nd) {
        // fixed-output constructors size buffers from the ratio: concrete offending values
        let which = nd.u8();
        let (ratio, max) = match which % 6 { 0 => (0.0, 2.0), 1 => (-1.0, 2.0), 2 => (1.0, 0.5), 3 => (1.0, -3.0), 4 => (-0.0, 1.0), _ => (f64::NEG_INFINITY, 1.0) };
        let a = FastFixedOut::<f64>::new(ratio, max, PolynomialDegree::Cubic, 2, 1);
        let b = SincFixedOut::<f64>::new_with_interpolator(ratio, max, SincInterpolationType::Cubic, probe::boxed64(2, 1), 2, 1);
        let want_ratio = ratio <= 0.0;
        check!(matches!(a, Err(ResamplerConstructionError::InvalidRatio(_))) == want_ratio
            && matches!(a, Err(ResamplerConstructionError::InvalidRelativeRatio(_))) == !want_ratio, "C13.ctor_variant[base]");
        check!(matches!(b, Err(ResamplerConstructionError::InvalidRatio(_))) == want_ratio
            && matches!(b, Err(ResamplerConstructionError::InvalidRelativeRatio(_))) == !want_ratio, "C13.ctor_variant[base]");
        forget(a); forget(b);
    }
    #[kani::unwind(12)]
    #[kani::stub(realfft::RealFftPlanner::<f64>::new, crate::stubs::planner_new)]
    #[kani::stub(realfft::RealFftPlanner::<f64>::plan_fft_forward, crate::stubs::plan_fwd)]
    #[kani::stub(realfft::RealFftPlanner::<f64>::plan_fft_inverse, crate::stubs::plan_inv)]
    #[kani::stub(rubato::sinc::make_sincs, crate::stubs::make_sincs_unit)]
    fn c13_ctor_fft(nd) {
        // a symbolic pair with at least one zero rate: must be InvalidSampleRate, never a panic
        // concrete constructor calls selected symbolically (symbolic sizes would make every
        // allocation size symbolic on the infeasible Ok path)
        let which = nd.u8();
        let (fi, fo): (usize, usize) = match which % 5 { 0 => (0, 0), 1 => (0, 1), 2 => (1, 0), 3 => (0, 48000), _ => (44100, 0) };
        let (a, b, c) = match which % 5 {
            0 => (FftFixedInOut::<f64>::new(0, 0, 2, 1), FftFixedIn::<f64>::new(0, 0, 2, 1, 1), FftFixedOut::<f64>::new(0, 0, 2, 1, 1)),
            1 => (FftFixedInOut::<f64>::new(0, 1, 2, 1), FftFixedIn::<f64>::new(0, 1, 2, 1, 1), FftFixedOut::<f64>::new(0, 1, 2, 1, 1)),
            2 => (FftFixedInOut::<f64>::new(1, 0, 2, 1), FftFixedIn::<f64>::new(1, 0, 2, 1, 1), FftFixedOut::<f64>::new(1, 0, 2, 1, 1)),
            3 => (FftFixedInOut::<f64>::new(0, 48000, 2, 1), FftFixedIn::<f64>::new(0, 48000, 2, 1, 1), FftFixedOut::<f64>::new(0, 48000, 2, 1, 1)),
            _ => (FftFixedInOut::<f64>::new(44100, 0, 2, 1), FftFixedIn::<f64>::new(44100, 0, 2, 1, 1), FftFixedOut::<f64>::new(44100, 0, 2, 1, 1)),
        };
        check!(matches!(a, Err(ResamplerConstructionError::InvalidSampleRate { input, output }) if input == fi && output == fo), "C13.ctor_variant[base]");
        check!(matches!(b, Err(ResamplerConstructionError::InvalidSampleRate { input, output }) if input == fi && output == fo), "C13.ctor_variant[base]");
        check!(matches!(c, Err(ResamplerConstructionError::InvalidSampleRate { input, output }) if input == fi && output == fo), "C13.ctor_variant[base]");
        cover!(fi == 0 && fo == 0, "both rates zero");
        forget(a); forget(b); forget(c);
    }

    // ---------------------------------------------------------------- vacuity witness (must FAIL)
    #[kani::unwind(5)]
    fn c13_witness(nd) {
        let mut r = FastFixedOut::<f64>::new(1.0, 2.0, PolynomialDegree::Nearest, 2, 2).unwrap();
        let need_in = r.input_frames_next();
        let sh = draw(nd, 2, need_in, 2, need_in + 1, 3);
        check!(!(sh.valid()), "WITNESS.c13a");
        check!(sh.valid(), "WITNESS.c13b");
        forget(r);
    }
}
