//! C16 — convenience wrappers equal the core call; partial processing equals
//! zero padding; the VecResampler object forwards every method unchanged.
//! Twin instances with the same concrete construction.
use crate::drive::fill_line;
use crate::probe;
use crate::util::*;
use crate::{check, cover, harnesses, unroll32};
use rubato::{
    FastFixedIn, FastFixedOut, FftFixedIn, FftFixedInOut, FftFixedOut, PolynomialDegree, Resampler,
    SincFixedIn, SincFixedOut, SincInterpolationType,
};

/// process() on `$a` vs process_into_buffer() on the twin `$b`, 2 channels,
/// symbolic mask (None / Some[m0,m1]); inactive channels get empty input slices.
macro_rules! process_vs_core {
    ($nd:ident, $a:ident, $b:ident, $T:ty, $MI:expr, $MO:expr) => {{
        let use_mask = $nd.bool();
        let m0 = $nd.bool();
        let m1 = $nd.bool();
        let mb = [m0, m1];
        let mask: Option<&[bool]> = if use_mask { Some(&mb[..]) } else { None };
        let act0 = !use_mask || m0;
        let act1 = !use_mask || m1;
        let n = $b.input_frames_next();
        let no = $b.output_frames_next();
        $crate::fit!($nd, n <= $MI && no <= $MO, "C16.demand_fits_scenario_bound[base]");
        let mut x0 = [0.0 as $T; $MI];
        let mut x1 = [0.0 as $T; $MI];
        fill_line(&mut x0[..], 0);
        fill_line(&mut x1[..], 300);
        let l0 = if act0 { n } else { 0 };
        let l1 = if act1 { n } else { 0 };
        let sent = SENT as $T;
        let mut o0 = [sent; $MO];
        let mut o1 = [sent; $MO];
        let ra = $a.process(&[&x0[..l0], &x1[..l1]], mask);
        let rb = $b.process_into_buffer(&[&x0[..l0], &x1[..l1]], &mut [&mut o0[..no], &mut o1[..no]], mask);
        match (&ra, &rb) {
            (Ok(v), Ok((_, cnt))) => {
                check!(v.len() == 2, "C16.process_channels[base]");
                if v.len() == 2 {
                    check!(v[0].len() == (if act0 { *cnt } else { 0 }) && v[1].len() == (if act1 { *cnt } else { 0 }),
                        "C16.process_lengths[base]");
                    let mut same = true;
                    unroll32!(i, $MO, {
                        if act0 && i < *cnt && i < v[0].len() && v[0][i].to_bits() != o0[i].to_bits() { same = false; }
                        if act1 && i < *cnt && i < v[1].len() && v[1][i].to_bits() != o1[i].to_bits() { same = false; }
                    });
                    check!(same, "C16.process_values[base]");
                }
                cover!(*cnt > 0 && act0, "frames compared");
                cover!(use_mask && !m1, "masked channel present");
            }
            (Err(_), Err(_)) => {}
            _ => { check!(false, "C16.process_result[base]"); }
        }
        check!($a.input_frames_next() == $b.input_frames_next() && $a.output_frames_next() == $b.output_frames_next(),
            "C16.process_state[base]");
        forget(ra);
    }};
}

/// process_partial_into_buffer(Some(x[..m])) on `$a` vs process_into_buffer on
/// zero-padded input on `$b`; 2 channels with independent symbolic lengths and
/// a symbolic mask (masked channels may be empty).
macro_rules! partial_vs_padded {
    ($nd:ident, $a:ident, $b:ident, $T:ty, $MI:expr, $MO:expr) => {{
        let n = $b.input_frames_next();
        $crate::fit!($nd, n <= $MI && n >= 2, "C16.demand_fits_scenario_bound[base]");
        let use_mask = $nd.bool();
        let m1 = $nd.bool();
        let mb = [true, m1];
        let mask: Option<&[bool]> = if use_mask { Some(&mb[..]) } else { None };
        let act1 = !use_mask || m1;
        // partial lengths 1..n for active channels (the property's quantifier); a masked
        // channel may be passed empty
        let l0 = $nd.usize_in(1, $MI);
        let l1 = $nd.usize_in(0, $MI);
        $nd.assume(l0 < n && l1 < n && (l1 >= 1 || !act1));
        let mut x0 = [0.0 as $T; $MI];
        let mut x1 = [0.0 as $T; $MI];
        fill_line(&mut x0[..], 0);
        fill_line(&mut x1[..], 300);
        let mut p0 = [0.0 as $T; $MI];
        let mut p1 = [0.0 as $T; $MI];
        unroll32!(i, $MI, {
            if i < l0 { p0[i] = x0[i]; }
            if i < l1 { p1[i] = x1[i]; }
        });
        let sent = SENT as $T;
        let mut oa0 = [sent; $MO];
        let mut oa1 = [sent; $MO];
        let mut ob0 = [sent; $MO];
        let mut ob1 = [sent; $MO];
        let ra = $a.process_partial_into_buffer(Some(&[&x0[..l0], &x1[..l1]]), &mut [&mut oa0[..], &mut oa1[..]], mask);
        let rb = $b.process_into_buffer(&[&p0[..n], &p1[..n]], &mut [&mut ob0[..], &mut ob1[..]], mask);
        match (ra, rb) {
            (Ok(ca), Ok(cb)) => {
                check!(ca == cb, "C16.partial_counts[base]");
                let mut same = true;
                unroll32!(i, $MO, {
                    if oa0[i].to_bits() != ob0[i].to_bits() || oa1[i].to_bits() != ob1[i].to_bits() { same = false; }
                });
                check!(same, "C16.partial_values[base]");
                cover!(ca.1 > 0 && l0 != l1, "channels of different partial length compared");
                cover!(use_mask && !m1 && l1 == 0, "masked empty channel");
            }
            (Err(_), Err(_)) => { check!(false, "C16.partial_ok[base]"); }
            _ => { check!(false, "C16.partial_result[base]"); }
        }
    }};
}

/// process_partial_into_buffer(None) vs an all-zero chunk, twice (flush).
macro_rules! none_vs_zero {
    ($nd:ident, $a:ident, $b:ident, $T:ty, $MI:expr, $MO:expr) => {{
        let z = [0.0 as $T; $MI];
        let sent = SENT as $T;
        let mut k = 0;
        while k < 2 {
            let n = $b.input_frames_next();
            $crate::fit!($nd, n <= $MI, "C16.demand_fits_scenario_bound[base]");
            let mut oa = [sent; $MO];
            let mut ob = [sent; $MO];
            let none: Option<&[&[$T]]> = None;
            let ra = $a.process_partial_into_buffer(none, &mut [&mut oa[..]], None);
            let rb = $b.process_into_buffer(&[&z[..n]], &mut [&mut ob[..]], None);
            match (ra, rb) {
                (Ok(ca), Ok(cb)) => {
                    check!(ca == cb, "C16.none_counts[base]");
                    let mut same = true;
                    unroll32!(i, $MO, { if oa[i].to_bits() != ob[i].to_bits() { same = false; } });
                    check!(same, "C16.none_values[base]");
                }
                _ => { check!(false, "C16.none_result[base]"); }
            }
            k += 1;
        }
    }};
}


/// single-channel version: process_partial_into_buffer(Some(x[..l])) vs zero-padded input
macro_rules! partial1 {
    ($nd:ident, $a:ident, $b:ident, $T:ty, $MI:expr, $MO:expr) => {{
        let n = $b.input_frames_next();
        $crate::fit!($nd, n <= $MI && n >= 2, "C16.demand_fits_scenario_bound[base]");
        let l0 = $nd.usize_in(1, $MI);
        $nd.assume(l0 < n);
        let mut x0 = [0.0 as $T; $MI];
        fill_line(&mut x0[..], 0);
        let mut p0 = [0.0 as $T; $MI];
        unroll32!(i, $MI, { if i < l0 { p0[i] = x0[i]; } });
        let sent = SENT as $T;
        let mut oa = [sent; $MO];
        let mut ob = [sent; $MO];
        let ra = $a.process_partial_into_buffer(Some(&[&x0[..l0]]), &mut [&mut oa[..]], None);
        let rb = $b.process_into_buffer(&[&p0[..n]], &mut [&mut ob[..]], None);
        match (ra, rb) {
            (Ok(ca), Ok(cb)) => {
                check!(ca == cb, "C16.partial_counts[base]");
                let mut same = true;
                unroll32!(i, $MO, { if oa[i].to_bits() != ob[i].to_bits() { same = false; } });
                check!(same, "C16.partial_values[base]");
                cover!(ca.1 > 0 && l0 == 1, "shortest partial length compared");
            }
            _ => { check!(false, "C16.partial_result[base]"); }
        }
    }};
}

/// two channels with CONCRETE different partial lengths (and a masked empty channel): the padding
/// must be per channel
macro_rules! partial2_concrete {
    ($nd:ident, $a:ident, $b:ident, $T:ty, $MI:expr, $MO:expr, $l0:expr, $l1:expr, $m0:expr, $m1:expr) => {{
        let n = $b.input_frames_next();
        $crate::fit!($nd, n <= $MI && n > $l0 && n > $l1, "C16.demand_fits_scenario_bound[base]");
        let mut x0 = [0.0 as $T; $MI];
        let mut x1 = [0.0 as $T; $MI];
        fill_line(&mut x0[..], 0);
        fill_line(&mut x1[..], 300);
        let mut p0 = [0.0 as $T; $MI];
        let mut p1 = [0.0 as $T; $MI];
        unroll32!(i, $MI, { if i < $l0 { p0[i] = x0[i]; } if i < $l1 { p1[i] = x1[i]; } });
        let mb = [$m0, $m1];
        let sent = SENT as $T;
        let mut oa0 = [sent; $MO];
        let mut oa1 = [sent; $MO];
        let mut ob0 = [sent; $MO];
        let mut ob1 = [sent; $MO];
        let ra = $a.process_partial_into_buffer(Some(&[&x0[..$l0], &x1[..$l1]]), &mut [&mut oa0[..], &mut oa1[..]], Some(&mb[..]));
        let rb = $b.process_into_buffer(&[&p0[..n], &p1[..n]], &mut [&mut ob0[..], &mut ob1[..]], Some(&mb[..]));
        match (ra, rb) {
            (Ok(ca), Ok(cb)) => {
                check!(ca == cb, "C16.partial_counts[base]");
                let mut same = true;
                unroll32!(i, $MO, {
                    if oa0[i].to_bits() != ob0[i].to_bits() || oa1[i].to_bits() != ob1[i].to_bits() { same = false; }
                });
                check!(same, "C16.partial_values[base]");
            }
            _ => { check!(false, "C16.partial_result[base]"); }
        }
    }};
}

harnesses! {
    // ---------------------------------------------------------------- process() == core call
    #[kani::unwind(10)]
    fn c16_process_ffo(nd) {
        let mut a = FastFixedOut::<f64>::new(1.0, 2.0, PolynomialDegree::Nearest, 2, 2).unwrap();
        let mut b = FastFixedOut::<f64>::new(1.0, 2.0, PolynomialDegree::Nearest, 2, 2).unwrap();
        process_vs_core!(nd, a, b, f64, 8, 2);
        forget(a); forget(b);
    }
    #[kani::unwind(14)]
    fn c16_process_sfi(nd) {
        // estimate larger than the written count: truncation is exercised
        let mut a = SincFixedIn::<f64>::new_with_interpolator(1.0, 1.0, SincInterpolationType::Nearest, probe::boxed64(2, 1), 6, 2).unwrap();
        let mut b = SincFixedIn::<f64>::new_with_interpolator(1.0, 1.0, SincInterpolationType::Nearest, probe::boxed64(2, 1), 6, 2).unwrap();
        process_vs_core!(nd, a, b, f64, 6, 16);
        forget(a); forget(b);
    }
    #[kani::unwind(10)]
    #[kani::stub(realfft::RealFftPlanner::<f64>::new, crate::stubs::planner_new)]
    #[kani::stub(realfft::RealFftPlanner::<f64>::plan_fft_forward, crate::stubs::plan_fwd)]
    #[kani::stub(realfft::RealFftPlanner::<f64>::plan_fft_inverse, crate::stubs::plan_inv)]
    #[kani::stub(rubato::sinc::make_sincs, crate::stubs::make_sincs_unit)]
    fn c16_process_ftio(nd) {
        let mut a = FftFixedInOut::<f64>::new(2, 3, 2, 2).unwrap();
        let mut b = FftFixedInOut::<f64>::new(2, 3, 2, 2).unwrap();
        process_vs_core!(nd, a, b, f64, 2, 3);
        forget(a); forget(b);
    }

    // process() sizes its vectors from output_frames_next(): with a ramped change pending the
    // wrapper must still succeed and return exactly what the core call writes
    #[kani::unwind(30)]
    fn c16_process_ffi_ramp_pending(nd) {
        let mut a = FastFixedIn::<f64>::new(1.0, 2.0, PolynomialDegree::Nearest, 10, 1).unwrap();
        let mut b = FastFixedIn::<f64>::new(1.0, 2.0, PolynomialDegree::Nearest, 10, 1).unwrap();
        let down = nd.bool();
        let r = if down { 0.5 } else { 2.0 };
        check!(a.set_resample_ratio(r, true).is_ok() && b.set_resample_ratio(r, true).is_ok(), "C03.ok[base]");
        let mut x = [0.0f64; 10];
        fill_line(&mut x[..], 0);
        let no = b.output_frames_next();
        crate::fit!(nd, no <= 26, "C16.demand_fits_scenario_bound[base]");
        let mut ob = [SENT; 26];
        let ra = a.process(&[&x[..]], None);
        let rb = b.process_into_buffer(&[&x[..]], &mut [&mut ob[..no]], None);
        match (&ra, &rb) {
            (Ok(v), Ok((_, cnt))) => {
                check!(v.len() == 1 && v[0].len() == *cnt, "C16.process_lengths[base]");
                let mut same = true;
                unroll32!(i, 26, { if v.len() == 1 && i < *cnt && i < v[0].len() && v[0][i].to_bits() != ob[i].to_bits() { same = false; } });
                check!(same, "C16.process_values[base]");
                cover!(*cnt > 0, "frames compared");
            }
            _ => { check!(false, "C16.process_result[base]"); }
        }
        forget(ra);
        forget(a); forget(b);
    }

    // ---------------------------------------------------------------- partial == zero padding
    #[kani::unwind(10)]
    fn c16_partial_ffo_2ch_sym(nd) {
        let mut a = FastFixedOut::<f64>::new(1.0, 2.0, PolynomialDegree::Linear, 2, 2).unwrap();
        let mut b = FastFixedOut::<f64>::new(1.0, 2.0, PolynomialDegree::Linear, 2, 2).unwrap();
        partial_vs_padded!(nd, a, b, f64, 6, 2);
        forget(a); forget(b);
    }
    #[kani::unwind(14)]
    fn c16_partial_sfi_2ch_sym(nd) {
        let mut a = SincFixedIn::<f64>::new_with_interpolator(1.0, 1.0, SincInterpolationType::Nearest, probe::boxed64(2, 1), 6, 2).unwrap();
        let mut b = SincFixedIn::<f64>::new_with_interpolator(1.0, 1.0, SincInterpolationType::Nearest, probe::boxed64(2, 1), 6, 2).unwrap();
        partial_vs_padded!(nd, a, b, f64, 6, 16);
        forget(a); forget(b);
    }
    #[kani::unwind(10)]
    #[kani::stub(realfft::RealFftPlanner::<f64>::new, crate::stubs::planner_new)]
    #[kani::stub(realfft::RealFftPlanner::<f64>::plan_fft_forward, crate::stubs::plan_fwd)]
    #[kani::stub(realfft::RealFftPlanner::<f64>::plan_fft_inverse, crate::stubs::plan_inv)]
    #[kani::stub(rubato::sinc::make_sincs, crate::stubs::make_sincs_unit)]
    fn c16_partial_fto_2ch_sym(nd) {
        let mut a = FftFixedOut::<f64>::new(2, 3, 3, 1, 2).unwrap();
        let mut b = FftFixedOut::<f64>::new(2, 3, 3, 1, 2).unwrap();
        partial_vs_padded!(nd, a, b, f64, 2, 3);
        forget(a); forget(b);
    }

    // ---------------------------------------------------------------- quick: light partial harnesses
    #[kani::unwind(10)]
    fn c16_partial_ffo(nd) {
        // chunk 6: the last three frames of the first call read the current input
        let mut a = FastFixedOut::<f64>::new(1.0, 2.0, PolynomialDegree::Nearest, 6, 1).unwrap();
        let mut b = FastFixedOut::<f64>::new(1.0, 2.0, PolynomialDegree::Nearest, 6, 1).unwrap();
        partial1!(nd, a, b, f64, 10, 6);
        forget(a); forget(b);
    }
    #[kani::unwind(10)]
    fn c16_partial_ffo_2ch(nd) {
        // different concrete lengths per channel
        let mut a = FastFixedOut::<f64>::new(1.0, 2.0, PolynomialDegree::Nearest, 6, 2).unwrap();
        let mut b = FastFixedOut::<f64>::new(1.0, 2.0, PolynomialDegree::Nearest, 6, 2).unwrap();
        partial2_concrete!(nd, a, b, f64, 10, 6, 5, 2, true, true);
        forget(a); forget(b);
    }
    #[kani::unwind(10)]
    fn c16_partial_ffo_2ch_masked_empty(nd) {
        // the masked channel is passed empty: the active channel must still be padded from ITS length
        let mut a = FastFixedOut::<f64>::new(1.0, 2.0, PolynomialDegree::Nearest, 6, 2).unwrap();
        let mut b = FastFixedOut::<f64>::new(1.0, 2.0, PolynomialDegree::Nearest, 6, 2).unwrap();
        partial2_concrete!(nd, a, b, f64, 10, 6, 5, 0, true, false);
        forget(a); forget(b);
    }
    #[kani::unwind(10)]
    fn c16_partial_ffo_2ch_masked_first(nd) {
        // the FIRST channel is masked and passed empty: the partial length must not be taken from it
        let mut a = FastFixedOut::<f64>::new(1.0, 2.0, PolynomialDegree::Nearest, 6, 2).unwrap();
        let mut b = FastFixedOut::<f64>::new(1.0, 2.0, PolynomialDegree::Nearest, 6, 2).unwrap();
        partial2_concrete!(nd, a, b, f64, 10, 6, 0, 5, false, true);
        forget(a); forget(b);
    }
    #[kani::unwind(14)]
    fn c16_partial_sfi(nd) {
        let mut a = SincFixedIn::<f64>::new_with_interpolator(1.0, 1.0, SincInterpolationType::Nearest, probe::boxed64(2, 1), 6, 1).unwrap();
        let mut b = SincFixedIn::<f64>::new_with_interpolator(1.0, 1.0, SincInterpolationType::Nearest, probe::boxed64(2, 1), 6, 1).unwrap();
        partial1!(nd, a, b, f64, 6, 16);
        forget(a); forget(b);
    }

    // ---------------------------------------------------------------- None == all-zero chunk, repeated
    #[kani::unwind(10)]
    fn c16_none_ffo(nd) {
        let mut a = FastFixedOut::<f64>::new(1.0, 2.0, PolynomialDegree::Linear, 2, 1).unwrap();
        let mut b = FastFixedOut::<f64>::new(1.0, 2.0, PolynomialDegree::Linear, 2, 1).unwrap();
        // some audio first, so that the flush has a tail to push out
        let mut x = [0.0f64; 6];
        fill_line(&mut x[..], 0);
        let mut y = [0.0f64; 2];
        check!(a.process_into_buffer(&[&x[..]], &mut [&mut y[..]], None).is_ok(), "C03.ok[base]");
        check!(b.process_into_buffer(&[&x[..]], &mut [&mut y[..]], None).is_ok(), "C03.ok[base]");
        none_vs_zero!(nd, a, b, f64, 8, 2);
        forget(a); forget(b);
    }
    #[kani::unwind(14)]
    #[kani::stub(realfft::RealFftPlanner::<f64>::new, crate::stubs::planner_new)]
    #[kani::stub(realfft::RealFftPlanner::<f64>::plan_fft_forward, crate::stubs::plan_fwd)]
    #[kani::stub(realfft::RealFftPlanner::<f64>::plan_fft_inverse, crate::stubs::plan_inv)]
    #[kani::stub(rubato::sinc::make_sincs, crate::stubs::make_sincs_unit)]
    fn c16_none_fti(nd) {
        let mut a = FftFixedIn::<f64>::new(2, 3, 3, 1, 1).unwrap();
        let mut b = FftFixedIn::<f64>::new(2, 3, 3, 1, 1).unwrap();
        let mut x = [0.0f64; 3];
        fill_line(&mut x[..], 0);
        let mut y = [0.0f64; 6];
        check!(a.process_into_buffer(&[&x[..]], &mut [&mut y[..]], None).is_ok(), "C03.ok[base]");
        check!(b.process_into_buffer(&[&x[..]], &mut [&mut y[..]], None).is_ok(), "C03.ok[base]");
        none_vs_zero!(nd, a, b, f64, 3, 6);
        forget(a); forget(b);
    }

    // ---------------------------------------------------------------- process_partial == process_partial_into_buffer
    #[kani::unwind(10)]
    fn c16_partial_alloc_ffo(nd) {
        // chunk 6: the last frames of the first call read the current input
        let mut a = FastFixedOut::<f64>::new(1.0, 2.0, PolynomialDegree::Linear, 6, 1).unwrap();
        let mut b = FastFixedOut::<f64>::new(1.0, 2.0, PolynomialDegree::Linear, 6, 1).unwrap();
        let mut x = [0.0f64; 10];
        fill_line(&mut x[..], 0);
        let l = nd.usize_in(1, 9);
        let some = nd.bool();
        let mut ob = [SENT; 6];
        let (ra, rb) = if some {
            (a.process_partial(Some(&[&x[..l]]), None), b.process_partial_into_buffer(Some(&[&x[..l]]), &mut [&mut ob[..]], None))
        } else {
            let none: Option<&[&[f64]]> = None;
            (a.process_partial(none, None), b.process_partial_into_buffer(none, &mut [&mut ob[..]], None))
        };
        match (&ra, &rb) {
            (Ok(v), Ok((_, cnt))) => {
                check!(v.len() == 1 && v[0].len() == *cnt, "C16.process_partial_lengths[base]");
                if v.len() == 1 && v[0].len() == 6 {
                    let mut same = true;
                    unroll32!(i, 6, { if v[0][i].to_bits() != ob[i].to_bits() { same = false; } });
                    check!(same, "C16.process_partial_values[base]");
                    cover!(some && ob[5] != 0.0, "compared output depends on the current input");
                }
            }
            _ => { check!(false, "C16.process_partial_result[base]"); }
        }
        cover!(some, "Some variant");
        cover!(!some, "None variant");
        forget(ra);
        forget(a); forget(b);
    }

    // vacuity witness (must FAIL): twin with a different chunk size
    #[kani::unwind(10)]
    fn c16_witness(nd) {
        let mut a = FastFixedOut::<f64>::new(1.0, 2.0, PolynomialDegree::Nearest, 2, 1).unwrap();
        let mut b = FastFixedOut::<f64>::new(0.5, 2.0, PolynomialDegree::Nearest, 2, 1).unwrap();
        check!(a.input_frames_next() == b.input_frames_next(), "WITNESS.c16[base]");
        forget(a); forget(b);
    }
}
