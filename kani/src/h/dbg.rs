use crate::{check, cover, harnesses};
harnesses! {
    #[kani::unwind(4)]
    fn dbg_oob(nd) {
        let a = [1u32, 2, 3, 4];
        let i = nd.usize();
        let b = nd.bool();
        nd.assume(i < 6);
        let v = unsafe { *a.get_unchecked(i) };
        check!(v != 77 || b, "C03.dbg[base]");
    }
}
