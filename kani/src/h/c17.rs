//! C17 — f32 and f64 instantiations make the same control decisions; copy-only
//! kernels agree exactly on f32-representable input.
use crate::probe;
use crate::util::*;
use crate::{check, cover, harnesses, unroll32};
use rubato::{
    FastFixedIn, FastFixedOut, FftFixedIn, FftFixedOut, PolynomialDegree, Resampler, SincFixedIn,
    SincFixedOut, SincInterpolationType,
};

macro_rules! ctrl {
    ($a:ident, $b:ident, $tag:literal) => {
        check!(
            $a.input_frames_next() == $b.input_frames_next()
                && $a.output_frames_next() == $b.output_frames_next()
                && $a.input_frames_max() == $b.input_frames_max()
                && $a.output_frames_max() == $b.output_frames_max()
                && $a.output_delay() == $b.output_delay(),
            $tag
        );
    };
}

/// same symbolic schedule on the f32 instance `$a` and the f64 instance `$b`
macro_rules! twin_step {
    ($nd:ident, $a:ident, $b:ident, $MI:expr, $MO:expr, $dom:ident, $values:expr) => {{
        ctrl!($a, $b, "C17.control_getters[base]");
        let newr: f64 = twin_step!(@ratio $nd, $dom);
        let ramp = $nd.bool();
        let ra = $a.set_resample_ratio(newr, ramp);
        let rb = $b.set_resample_ratio(newr, ramp);
        check!(ra.is_ok() == rb.is_ok(), "C17.control_setter[base]");
        $nd.assume(ra.is_ok() && rb.is_ok());
        ctrl!($a, $b, "C17.control_getters[base]");
        let n = $b.input_frames_next();
        $crate::fit!($nd, n <= $MI && $a.input_frames_next() <= $MI, "C17.demand_fits_scenario_bound[base]");
        let mut x32 = [0.0f32; $MI];
        let mut x64 = [0.0f64; $MI];
        crate::drive::fill_line(&mut x32[..], 0);
        crate::drive::fill_line(&mut x64[..], 0);
        let mut o32 = [SENT as f32; $MO];
        let mut o64 = [SENT; $MO];
        let na = $a.input_frames_next();
        let r32 = $a.process_into_buffer(&[&x32[..na]], &mut [&mut o32[..]], None);
        let r64 = $b.process_into_buffer(&[&x64[..n]], &mut [&mut o64[..]], None);
        match (r32, r64) {
            (Ok(c32), Ok(c64)) => {
                check!(c32 == c64, "C17.control_counts[base]");
                if $values {
                    let mut same = true;
                    unroll32!(i, $MO, { if o32[i].to_bits() != (o64[i] as f32).to_bits() { same = false; } });
                    check!(same, "C17.copy_kernel_values[base]");
                }
                cover!(c64.1 > 0, "frames produced");
            }
            (Err(_), Err(_)) => {}
            _ => { check!(false, "C17.control_result[base]"); }
        }
        ctrl!($a, $b, "C17.control_getters[base]");
        cover!(ramp, "ramped");
    }};
    (@ratio $nd:ident, full) => {{ $nd.f64() }};
    (@ratio $nd:ident, grid) => {{ let k = $nd.u8(); (k as f64) / 32.0 }};
}


/// control decisions right after a ratio change, without a processing call (cheap): every f64
macro_rules! twin_getters {
    ($nd:ident, $a:ident, $b:ident) => {{
        ctrl!($a, $b, "C17.control_getters[base]");
        let newr = $nd.f64();
        let ramp = $nd.bool();
        let rel = $nd.bool();
        let (ra, rb) = if rel { ($a.set_resample_ratio_relative(newr, ramp), $b.set_resample_ratio_relative(newr, ramp)) }
                       else { ($a.set_resample_ratio(newr, ramp), $b.set_resample_ratio(newr, ramp)) };
        check!(ra.is_ok() == rb.is_ok(), "C17.control_setter[base]");
        ctrl!($a, $b, "C17.control_getters[base]");
        cover!(ra.is_ok() && ramp, "accepted ramped change");
        cover!(ra.is_err(), "rejected change");
    }};
}

/// one call at a concrete ratio (after a concrete ramped change): counts and copy-kernel values
macro_rules! twin_call_concrete {
    ($nd:ident, $a:ident, $b:ident, $MI:expr, $MO:expr, $ratio:expr) => {{
        check!($a.set_resample_ratio($ratio, true).is_ok() && $b.set_resample_ratio($ratio, true).is_ok(), "C03.ok[base]");
        ctrl!($a, $b, "C17.control_getters[base]");
        let n = $b.input_frames_next();
        $crate::fit!($nd, n <= $MI && $a.input_frames_next() <= $MI, "C17.demand_fits_scenario_bound[base]");
        let mut x32 = [0.0f32; $MI];
        let mut x64 = [0.0f64; $MI];
        crate::drive::fill_line(&mut x32[..], 0);
        crate::drive::fill_line(&mut x64[..], 0);
        let mut o32 = [SENT as f32; $MO];
        let mut o64 = [SENT; $MO];
        let na = $a.input_frames_next();
        let r32 = $a.process_into_buffer(&[&x32[..na]], &mut [&mut o32[..]], None);
        let r64 = $b.process_into_buffer(&[&x64[..n]], &mut [&mut o64[..]], None);
        match (r32, r64) {
            (Ok(c32), Ok(c64)) => {
                check!(c32 == c64, "C17.control_counts[base]");
                let mut same = true;
                unroll32!(i, $MO, { if o32[i].to_bits() != (o64[i] as f32).to_bits() { same = false; } });
                check!(same, "C17.copy_kernel_values[base]");
            }
            _ => { check!(false, "C17.control_result[base]"); }
        }
        ctrl!($a, $b, "C17.control_getters[base]");
    }};
}

/// f32/f64 twins, stepped change to ratio 0.0199 (1/ratio = 50.25...), alternating 0/1 input,
/// two calls; outputs agree within 16 f32 epsilons of the peak (1.0) and counts are equal.
macro_rules! far_ffo {
    ($nd:ident, $deg:expr) => {{
        let mut a = FastFixedOut::<f32>::new(1.0, 64.0, $deg, 2, 1).unwrap();
        let mut b = FastFixedOut::<f64>::new(1.0, 64.0, $deg, 2, 1).unwrap();
        check!(a.set_resample_ratio(0.0199, false).is_ok() && b.set_resample_ratio(0.0199, false).is_ok(), "C17.control_setter[base]");
        let mut xa = [0.0f32; 128];
        let mut xb = [0.0f64; 128];
        let mut i = 0;
        while i < 128 { if i % 2 == 1 { xa[i] = 1.0; xb[i] = 1.0; } i += 1; }
        let mut close = true;
        let mut k = 0;
        while k < 2 {
            let n = b.input_frames_next();
            check!(n == a.input_frames_next(), "C17.control_getters[base]");
            $crate::fit!($nd, n <= 128, "C17.demand_fits_scenario_bound[base]");
            let mut oa = [0.0f32; 2];
            let mut ob = [0.0f64; 2];
            let ra = a.process_into_buffer(&[&xa[..n]], &mut [&mut oa[..]], None);
            let rb = b.process_into_buffer(&[&xb[..n]], &mut [&mut ob[..]], None);
            check!(matches!((&ra, &rb), (Ok(p), Ok(q)) if p == q), "C17.control_counts[base]");
            let tol = 16.0 * (f32::EPSILON as f64);
            let d0 = (oa[0] as f64) - ob[0];
            let d1 = (oa[1] as f64) - ob[1];
            if !(d0 <= tol && d0 >= -tol && d1 <= tol && d1 >= -tol) { close = false; }
            k += 1;
        }
        check!(close, "C17.values_close_far_position[base]");
        forget(a); forget(b);
    }};
}
macro_rules! far_ffi {
    ($nd:ident, $deg:expr) => {{
        let mut a = FastFixedIn::<f32>::new(1.0, 64.0, $deg, 120, 1).unwrap();
        let mut b = FastFixedIn::<f64>::new(1.0, 64.0, $deg, 120, 1).unwrap();
        check!(a.set_resample_ratio(0.0199, false).is_ok() && b.set_resample_ratio(0.0199, false).is_ok(), "C17.control_setter[base]");
        let mut xa = [0.0f32; 120];
        let mut xb = [0.0f64; 120];
        let mut i = 0;
        while i < 120 { if i % 2 == 1 { xa[i] = 1.0; xb[i] = 1.0; } i += 1; }
        let mut close = true;
        let mut seen = 0usize;
        let mut k = 0;
        while k < 2 {
            let no = b.output_frames_next();
            check!(no == a.output_frames_next(), "C17.control_getters[base]");
            $crate::fit!($nd, no <= 16, "C17.demand_fits_scenario_bound[base]");
            let mut oa = [0.0f32; 16];
            let mut ob = [0.0f64; 16];
            let ra = a.process_into_buffer(&[&xa[..]], &mut [&mut oa[..]], None);
            let rb = b.process_into_buffer(&[&xb[..]], &mut [&mut ob[..]], None);
            check!(matches!((&ra, &rb), (Ok(p), Ok(q)) if p == q), "C17.control_counts[base]");
            let tol = 16.0 * (f32::EPSILON as f64);
            let cnt = match &rb { Ok((_, c)) => *c, Err(_) => 0 };
            unroll32!(j, 16, {
                if j < cnt {
                    let d = (oa[j] as f64) - ob[j];
                    if !(d <= tol && d >= -tol) { close = false; }
                    seen += 1;
                }
            });
            k += 1;
        }
        check!(close, "C17.values_close_far_position[base]");
        check!(seen >= 2, "C17.harness_observed_enough_frames[base]");
        forget(a); forget(b);
    }};
}

harnesses! {
    // ---- quick: control decisions for every f64 (no processing call)
    #[kani::unwind(6)]
    fn c17_ffo_getters(nd) {
        let mut a = FastFixedOut::<f32>::new(0.75, 2.0, PolynomialDegree::Cubic, 3, 1).unwrap();
        let mut b = FastFixedOut::<f64>::new(0.75, 2.0, PolynomialDegree::Cubic, 3, 1).unwrap();
        twin_getters!(nd, a, b);
        forget(a); forget(b);
    }
    #[kani::unwind(6)]
    fn c17_sfo_getters(nd) {
        let mut a = SincFixedOut::<f32>::new_with_interpolator(1.25, 2.0, SincInterpolationType::Cubic, probe::boxed32(8, 2), 3, 1).unwrap();
        let mut b = SincFixedOut::<f64>::new_with_interpolator(1.25, 2.0, SincInterpolationType::Cubic, probe::boxed64(8, 2), 3, 1).unwrap();
        twin_getters!(nd, a, b);
        forget(a); forget(b);
    }
    #[kani::unwind(6)]
    fn c17_fixedin_getters(nd) {
        let mut a = FastFixedIn::<f32>::new(0.75, 2.0, PolynomialDegree::Cubic, 3, 1).unwrap();
        let mut b = FastFixedIn::<f64>::new(0.75, 2.0, PolynomialDegree::Cubic, 3, 1).unwrap();
        twin_getters!(nd, a, b);
        let mut c = SincFixedIn::<f32>::new_with_interpolator(1.25, 2.0, SincInterpolationType::Cubic, probe::boxed32(8, 2), 3, 1).unwrap();
        let mut d = SincFixedIn::<f64>::new_with_interpolator(1.25, 2.0, SincInterpolationType::Cubic, probe::boxed64(8, 2), 3, 1).unwrap();
        twin_getters!(nd, c, d);
        forget(a); forget(b); forget(c); forget(d);
    }
    // ---- quick: one call at a concrete ratio: counts and copy-kernel values
    #[kani::unwind(10)]
    fn c17_ffo_call(nd) {
        let mut a = FastFixedOut::<f32>::new(1.0, 2.0, PolynomialDegree::Nearest, 2, 1).unwrap();
        let mut b = FastFixedOut::<f64>::new(1.0, 2.0, PolynomialDegree::Nearest, 2, 1).unwrap();
        twin_call_concrete!(nd, a, b, 12, 2, 0.75);
        forget(a); forget(b);
    }
    #[kani::unwind(10)]
    fn c17_sfo_call(nd) {
        probe::reset_flags();
        let mut a = SincFixedOut::<f32>::new_with_interpolator(1.0, 2.0, SincInterpolationType::Nearest, probe::boxed32(8, 1), 2, 1).unwrap();
        let mut b = SincFixedOut::<f64>::new_with_interpolator(1.0, 2.0, SincInterpolationType::Nearest, probe::boxed64(8, 1), 2, 1).unwrap();
        twin_call_concrete!(nd, a, b, 12, 2, 1.5);
        forget(a); forget(b);
    }
    #[kani::unwind(24)]
    fn c17_ffi_call(nd) {
        let mut a = FastFixedIn::<f32>::new(1.0, 2.0, PolynomialDegree::Nearest, 10, 1).unwrap();
        let mut b = FastFixedIn::<f64>::new(1.0, 2.0, PolynomialDegree::Nearest, 10, 1).unwrap();
        twin_call_concrete!(nd, a, b, 10, 26, 0.75);
        forget(a); forget(b);
    }
    // ---- real constructors (table generation, kernel selection) size everything alike
    #[kani::unwind(44)]
    #[kani::stub(rubato::CpuFeature::is_detected, crate::stubs::not_detected)]
    fn c17_real_new_8(nd) {
        use rubato::{SincInterpolationParameters, WindowFunction};
        let p32 = SincInterpolationParameters { sinc_len: 8, f_cutoff: 0.9, oversampling_factor: 2,
            interpolation: SincInterpolationType::Linear, window: WindowFunction::Hann };
        let p64 = SincInterpolationParameters { sinc_len: 8, f_cutoff: 0.9, oversampling_factor: 2,
            interpolation: SincInterpolationType::Linear, window: WindowFunction::Hann };
        let a = SincFixedOut::<f32>::new(1.0, 1.0, p32, 2, 1).unwrap();
        let b = SincFixedOut::<f64>::new(1.0, 1.0, p64, 2, 1).unwrap();
        ctrl!(a, b, "C17.control_getters[base]");
        forget(a); forget(b);
    }
    // the same with the table contents stubbed (unit table): the sizing decisions of
    // make_interpolator / the constructors are what is compared, cheaply
    #[kani::unwind(44)]
    #[kani::stub(rubato::CpuFeature::is_detected, crate::stubs::not_detected)]
    #[kani::stub(rubato::sinc::make_sincs, crate::stubs::make_sincs_unit)]
    fn c17_ctor_sizes_8(nd) {
        use rubato::{SincInterpolationParameters, WindowFunction};
        let p32 = SincInterpolationParameters { sinc_len: 8, f_cutoff: 0.9, oversampling_factor: 2,
            interpolation: SincInterpolationType::Linear, window: WindowFunction::Hann };
        let p64 = SincInterpolationParameters { sinc_len: 8, f_cutoff: 0.9, oversampling_factor: 2,
            interpolation: SincInterpolationType::Linear, window: WindowFunction::Hann };
        let a = SincFixedOut::<f32>::new(1.0, 1.0, p32, 2, 1).unwrap();
        let b = SincFixedOut::<f64>::new(1.0, 1.0, p64, 2, 1).unwrap();
        ctrl!(a, b, "C17.control_getters[base]");
        forget(a); forget(b);
    }
    #[kani::unwind(44)]
    #[kani::stub(rubato::CpuFeature::is_detected, crate::stubs::not_detected)]
    #[kani::stub(rubato::sinc::make_sincs, crate::stubs::make_sincs_unit)]
    fn c17_ctor_sizes_20(nd) {
        use rubato::{SincInterpolationParameters, WindowFunction};
        let p32 = SincInterpolationParameters { sinc_len: 20, f_cutoff: 0.9, oversampling_factor: 1,
            interpolation: SincInterpolationType::Nearest, window: WindowFunction::Hann };
        let p64 = SincInterpolationParameters { sinc_len: 20, f_cutoff: 0.9, oversampling_factor: 1,
            interpolation: SincInterpolationType::Nearest, window: WindowFunction::Hann };
        let a = SincFixedIn::<f32>::new(1.0, 1.0, p32, 2, 1).unwrap();
        let b = SincFixedIn::<f64>::new(1.0, 1.0, p64, 2, 1).unwrap();
        ctrl!(a, b, "C17.control_getters[base]");
        forget(a); forget(b);
    }
    #[kani::unwind(30)]
    #[kani::stub(rubato::CpuFeature::is_detected, crate::stubs::not_detected)]
    fn c17_real_new_20(nd) {
        use rubato::{SincInterpolationParameters, WindowFunction};
        // sinc_len 20 is rounded up (to 24) by the constructor: the rounding must not depend on the sample type
        let p32 = SincInterpolationParameters { sinc_len: 20, f_cutoff: 0.9, oversampling_factor: 1,
            interpolation: SincInterpolationType::Nearest, window: WindowFunction::Hann };
        let p64 = SincInterpolationParameters { sinc_len: 20, f_cutoff: 0.9, oversampling_factor: 1,
            interpolation: SincInterpolationType::Nearest, window: WindowFunction::Hann };
        let a = SincFixedOut::<f32>::new(1.0, 1.0, p32, 2, 1).unwrap();
        let b = SincFixedOut::<f64>::new(1.0, 1.0, p64, 2, 1).unwrap();
        ctrl!(a, b, "C17.control_getters[base]");
        forget(a); forget(b);
    }
    // ---- synchronous types: one call of an f32/f64 pair
    #[kani::unwind(12)]
    #[kani::stub(realfft::RealFftPlanner::<f64>::new, crate::stubs::planner_new)]
    #[kani::stub(realfft::RealFftPlanner::<f64>::plan_fft_forward, crate::stubs::plan_fwd)]
    #[kani::stub(realfft::RealFftPlanner::<f64>::plan_fft_inverse, crate::stubs::plan_inv)]
    #[kani::stub(realfft::RealFftPlanner::<f32>::new, crate::stubs::planner_new)]
    #[kani::stub(realfft::RealFftPlanner::<f32>::plan_fft_forward, crate::stubs::plan_fwd)]
    #[kani::stub(realfft::RealFftPlanner::<f32>::plan_fft_inverse, crate::stubs::plan_inv)]
    #[kani::stub(rubato::sinc::make_sincs, crate::stubs::make_sincs_unit)]
    fn c17_fto_call(nd) {
        let mut a = FftFixedOut::<f32>::new(2, 3, 4, 2, 1).unwrap();
        let mut b = FftFixedOut::<f64>::new(2, 3, 4, 2, 1).unwrap();
        ctrl!(a, b, "C17.control_getters[base]");
        let mut x32 = [0.0f32; 8];
        let mut x64 = [0.0f64; 8];
        crate::drive::fill_line(&mut x32[..], 0);
        crate::drive::fill_line(&mut x64[..], 0);
        let mut o32 = [SENT as f32; 4];
        let mut o64 = [SENT; 4];
        let n = b.input_frames_next();
        crate::fit!(nd, n <= 8 && a.input_frames_next() <= 8, "C17.demand_fits_scenario_bound[base]");
        let na = a.input_frames_next();
        let ra = a.process_into_buffer(&[&x32[..na]], &mut [&mut o32[..]], None);
        let rb = b.process_into_buffer(&[&x64[..n]], &mut [&mut o64[..]], None);
        check!(matches!((&ra, &rb), (Ok(p), Ok(q)) if p == q), "C17.control_counts[base]");
        // values are not compared: natively the real FFT (not the stub) runs, whose f32/f64 results differ by rounding
        ctrl!(a, b, "C17.control_getters[base]");
        forget(a); forget(b);
    }

    // ---- thorough: symbolic step on both twins

    #[kani::unwind(10)]
    fn c17_ffo_step(nd) {
        let mut a = FastFixedOut::<f32>::new(1.0, 2.0, PolynomialDegree::Nearest, 2, 1).unwrap();
        let mut b = FastFixedOut::<f64>::new(1.0, 2.0, PolynomialDegree::Nearest, 2, 1).unwrap();
        twin_step!(nd, a, b, 12, 2, full, true);
        forget(a); forget(b);
    }
    #[kani::unwind(10)]
    fn c17_sfo_step(nd) {
        probe::reset_flags();
        let mut a = SincFixedOut::<f32>::new_with_interpolator(1.0, 2.0, SincInterpolationType::Nearest, probe::boxed32(8, 1), 2, 1).unwrap();
        let mut b = SincFixedOut::<f64>::new_with_interpolator(1.0, 2.0, SincInterpolationType::Nearest, probe::boxed64(8, 1), 2, 1).unwrap();
        twin_step!(nd, a, b, 12, 2, full, true);
        forget(a); forget(b);
    }
    #[kani::unwind(12)]
    fn c17_ffi_step(nd) {
        let mut a = FastFixedIn::<f32>::new(1.0, 2.0, PolynomialDegree::Nearest, 2, 1).unwrap();
        let mut b = FastFixedIn::<f64>::new(1.0, 2.0, PolynomialDegree::Nearest, 2, 1).unwrap();
        // warm-up so that the loop produces frames
        let x32 = [0.0f32; 2];
        let x64 = [0.0f64; 2];
        let mut o32 = [0.0f32; 14];
        let mut o64 = [0.0f64; 14];
        let mut k = 0;
        while k < 4 {
            check!(a.process_into_buffer(&[&x32[..]], &mut [&mut o32[..]], None).is_ok(), "C03.ok[base]");
            check!(b.process_into_buffer(&[&x64[..]], &mut [&mut o64[..]], None).is_ok(), "C03.ok[base]");
            k += 1;
        }
        twin_step!(nd, a, b, 2, 14, grid, true);
        forget(a); forget(b);
    }
    #[kani::unwind(12)]
    fn c17_sfi_step(nd) {
        probe::reset_flags();
        let mut a = SincFixedIn::<f32>::new_with_interpolator(1.0, 2.0, SincInterpolationType::Nearest, probe::boxed32(8, 1), 2, 1).unwrap();
        let mut b = SincFixedIn::<f64>::new_with_interpolator(1.0, 2.0, SincInterpolationType::Nearest, probe::boxed64(8, 1), 2, 1).unwrap();
        let x32 = [0.0f32; 2];
        let x64 = [0.0f64; 2];
        let mut o32 = [0.0f32; 14];
        let mut o64 = [0.0f64; 14];
        let mut k = 0;
        while k < 4 {
            check!(a.process_into_buffer(&[&x32[..]], &mut [&mut o32[..]], None).is_ok(), "C03.ok[base]");
            check!(b.process_into_buffer(&[&x64[..]], &mut [&mut o64[..]], None).is_ok(), "C03.ok[base]");
            k += 1;
        }
        twin_step!(nd, a, b, 2, 14, grid, true);
        forget(a); forget(b);
    }



    // synchronous types: getters and counts over 3 calls (no symbolic parameter exists)
    #[kani::unwind(12)]
    #[kani::stub(realfft::RealFftPlanner::<f64>::new, crate::stubs::planner_new)]
    #[kani::stub(realfft::RealFftPlanner::<f64>::plan_fft_forward, crate::stubs::plan_fwd)]
    #[kani::stub(realfft::RealFftPlanner::<f64>::plan_fft_inverse, crate::stubs::plan_inv)]
    #[kani::stub(realfft::RealFftPlanner::<f32>::new, crate::stubs::planner_new)]
    #[kani::stub(realfft::RealFftPlanner::<f32>::plan_fft_forward, crate::stubs::plan_fwd)]
    #[kani::stub(realfft::RealFftPlanner::<f32>::plan_fft_inverse, crate::stubs::plan_inv)]
    #[kani::stub(rubato::sinc::make_sincs, crate::stubs::make_sincs_unit)]
    fn c17_fft_3calls(nd) {
        let mut a = FftFixedOut::<f32>::new(2, 3, 4, 1, 1).unwrap();
        let mut b = FftFixedOut::<f64>::new(2, 3, 4, 1, 1).unwrap();
        let mut c = FftFixedIn::<f32>::new(3, 2, 4, 1, 1).unwrap();
        let mut d = FftFixedIn::<f64>::new(3, 2, 4, 1, 1).unwrap();
        let mut x32 = [0.0f32; 8];
        let mut x64 = [0.0f64; 8];
        crate::drive::fill_line(&mut x32[..], 0);
        crate::drive::fill_line(&mut x64[..], 0);
        let mut k = 0;
        while k < 3 {
            ctrl!(a, b, "C17.control_getters[base]");
            ctrl!(c, d, "C17.control_getters[base]");
            let mut o32 = [SENT as f32; 8];
            let mut o64 = [SENT; 8];
            let n = b.input_frames_next();
            crate::fit!(nd, n <= 8 && a.input_frames_next() <= 8, "C17.demand_fits_scenario_bound[base]");
            let na = a.input_frames_next();
            let ra = a.process_into_buffer(&[&x32[..na]], &mut [&mut o32[..]], None);
            let rb = b.process_into_buffer(&[&x64[..n]], &mut [&mut o64[..]], None);
            check!(matches!((&ra, &rb), (Ok(p), Ok(q)) if p == q), "C17.control_counts[base]");
            let mut same = true;
            unroll32!(i, 8, { if o32[i].to_bits() != (o64[i] as f32).to_bits() { same = false; } });
            check!(same, "C17.copy_kernel_values[base]");
            let rc = c.process_into_buffer(&[&x32[..4]], &mut [&mut o32[..]], None);
            let rd = d.process_into_buffer(&[&x64[..4]], &mut [&mut o64[..]], None);
            check!(matches!((&rc, &rd), (Ok(p), Ok(q)) if p == q), "C17.control_counts[base]");
            k += 1;
        }
        forget(a); forget(b); forget(c); forget(d);
    }

    // ---- values far from the start of the buffer: the fractional position handed to the f32
    // polynomial must be as exact as the f64 one (computed before the conversion to T). Low ratio,
    // so that each output frame advances ~50 input frames; alternating 0/1 input (|slope| = 1).
    #[kani::unwind(140)]
    fn c17_ffo_linear_far_position(nd) { far_ffo!(nd, PolynomialDegree::Linear); }
    #[kani::unwind(140)]
    fn c17_ffo_cubic_far_position(nd) { far_ffo!(nd, PolynomialDegree::Cubic); }
    #[kani::unwind(140)]
    fn c17_ffi_linear_far_position(nd) { far_ffi!(nd, PolynomialDegree::Linear); }
    #[kani::unwind(140)]
    fn c17_ffi_septic_far_position(nd) { far_ffi!(nd, PolynomialDegree::Septic); }
    #[kani::unwind(140)]
    fn c17_ffo_quintic_far_position(nd) { far_ffo!(nd, PolynomialDegree::Quintic); }
    #[kani::unwind(140)]
    fn c17_ffo_septic_far_position(nd) { far_ffo!(nd, PolynomialDegree::Septic); }
    #[kani::unwind(140)]
    fn c17_ffi_cubic_far_position(nd) { far_ffi!(nd, PolynomialDegree::Cubic); }
    #[kani::unwind(140)]
    fn c17_ffi_quintic_far_position(nd) { far_ffi!(nd, PolynomialDegree::Quintic); }

    // vacuity witness (must FAIL): different chunk sizes
    #[kani::unwind(10)]
    fn c17_witness(nd) {
        let mut a = FastFixedOut::<f32>::new(1.0, 2.0, PolynomialDegree::Nearest, 2, 1).unwrap();
        let mut b = FastFixedOut::<f64>::new(1.0, 2.0, PolynomialDegree::Nearest, 3, 1).unwrap();
        ctrl!(a, b, "WITNESS.c17[base]");
        forget(a); forget(b);
    }
}
