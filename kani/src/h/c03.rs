//! C03 / C04 — `async_step` family: concrete construction and warm-up, one
//! symbolic ratio change (every f64 the setter accepts, ramp on/off), one
//! processing call with caller buffers of symbolic surplus length.
//! Untagged CBMC checks (pointer dereference, unsafe preconditions, overflow,
//! panics) inside these harnesses belong to C03.
use crate::drive::*;
use crate::probe;
use crate::util::*;
use crate::{check, cover, harnesses, obs_checks};
use rubato::{
    FastFixedIn, FastFixedOut, PolynomialDegree, Resampler, SincFixedIn, SincFixedOut,
    SincInterpolationType,
};

/// Warm-up at a concrete ratio: `n` calls. Everything constant-folds.
macro_rules! warm {
    ($nd:ident, $r:ident, $pos:ident, $xin:ident, $out:ident, $fixed_out:expr, $region:literal, $ratio:expr, $n:expr) => {{
        check!($r.set_resample_ratio($ratio, false).is_ok(), concat!("C03.warmup_setter_ok[", $region, "]"));
        let mut k = 0;
        while k < $n {
            let o = call1($nd, &mut $r, &mut $pos, 0, 0, &mut $xin, &mut $out);
            obs_checks!(o, $fixed_out, $region);
            k += 1;
        }
    }};
}

/// The symbolic step: setter (absolute or relative) with any accepted value,
/// then one call with surplus buffer lengths, then the getters again.
macro_rules! sym_step {
    ($nd:ident, $r:ident, $pos:ident, $xin:ident, $out:ident, $fixed_out:expr, $region:literal) => {{
        sym_step!($nd, $r, $pos, $xin, $out, $fixed_out, $region, full)
    }};
    (@ratio $nd:ident, full) => {{ $nd.f64() }};
    // D_grid: k/32, k in [1, 255]: reciprocals inexact, ~8 free bits
    (@ratio $nd:ident, grid) => {{ let k = $nd.u8(); (k as f64) / 32.0 }};
    ($nd:ident, $r:ident, $pos:ident, $xin:ident, $out:ident, $fixed_out:expr, $region:literal, $dom:ident) => {{
        let newr: f64 = sym_step!(@ratio $nd, $dom);
        let ramp = $nd.bool();
        let res = $r.set_resample_ratio(newr, ramp);
        $nd.assume(res.is_ok());
        let s_in = $nd.usize_in(0, 2);
        let s_out = $nd.usize_in(0, 2);
        let o = call1($nd, &mut $r, &mut $pos, s_in, s_out, &mut $xin, &mut $out);
        obs_checks!(o, $fixed_out, $region);
        check!($r.input_frames_next() <= $r.input_frames_max(), concat!("C04.next_le_max_in[", $region, "]"));
        check!($r.output_frames_next() <= $r.output_frames_max(), concat!("C04.next_le_max_out[", $region, "]"));
        cover!(o.ok && ramp && o.n_out > 0, "ramped call produced frames");
        cover!(o.ok && !ramp && o.n_out > 0, "stepped call produced frames");
        cover!(o.ok && s_out == 2 && s_in == 1, "surplus buffers accepted");
        (newr, ramp, o)
    }};
}

macro_rules! ffi {
    ($nd:ident, $T:ty, $deg:expr, $chunk:expr, $maxrel:expr, $maxin:expr, $maxout:expr, $region:literal, $dom:ident, [$(($wr:expr, $wn:expr)),*]) => {{
        let mut r = FastFixedIn::<$T>::new(1.0, $maxrel, $deg, $chunk, 1).unwrap();
        let mut pos = 0usize;
        let mut xin = [0.0 as $T; $maxin];
        let mut out = [0.0 as $T; $maxout];
        $( warm!($nd, r, pos, xin, out, false, $region, $wr, $wn); )*
        let (newr, ramp, o) = sym_step!($nd, r, pos, xin, out, false, $region, $dom);
        forget(r);
        (newr, ramp, o)
    }};
}
macro_rules! ffo {
    ($nd:ident, $T:ty, $deg:expr, $chunk:expr, $maxrel:expr, $maxin:expr, $maxout:expr, $region:literal, $dom:ident, [$(($wr:expr, $wn:expr)),*]) => {{
        let mut r = FastFixedOut::<$T>::new(1.0, $maxrel, $deg, $chunk, 1).unwrap();
        let mut pos = 0usize;
        let mut xin = [0.0 as $T; $maxin];
        let mut out = [0.0 as $T; $maxout];
        $( warm!($nd, r, pos, xin, out, true, $region, $wr, $wn); )*
        let (newr, ramp, o) = sym_step!($nd, r, pos, xin, out, true, $region, $dom);
        forget(r);
        (newr, ramp, o)
    }};
}
macro_rules! probe_checks {
    ($region:literal) => {{
        check!(!probe::bad_window(), concat!("C03.kernel_window[", $region, "]"));
        check!(!probe::bad_subindex(), concat!("C03.kernel_subindex[", $region, "]"));
        cover!(probe::calls() > 0, "kernel was called");
    }};
}
macro_rules! sfi {
    ($nd:ident, $T:ty, $boxed:ident, $it:expr, $l:expr, $f:expr, $chunk:expr, $maxrel:expr, $maxin:expr, $maxout:expr, $region:literal, $dom:ident, [$(($wr:expr, $wn:expr)),*]) => {{
        probe::reset_flags();
        let mut r = SincFixedIn::<$T>::new_with_interpolator(1.0, $maxrel, $it, probe::$boxed($l, $f), $chunk, 1).unwrap();
        let mut pos = 0usize;
        let mut xin = [0.0 as $T; $maxin];
        let mut out = [0.0 as $T; $maxout];
        $( warm!($nd, r, pos, xin, out, false, $region, $wr, $wn); )*
        let (newr, ramp, o) = sym_step!($nd, r, pos, xin, out, false, $region, $dom);
        probe_checks!($region);
        forget(r);
        (newr, ramp, o)
    }};
}
macro_rules! sfo {
    ($nd:ident, $T:ty, $boxed:ident, $it:expr, $l:expr, $f:expr, $chunk:expr, $maxrel:expr, $maxin:expr, $maxout:expr, $region:literal, $dom:ident, [$(($wr:expr, $wn:expr)),*]) => {{
        probe::reset_flags();
        let mut r = SincFixedOut::<$T>::new_with_interpolator(1.0, $maxrel, $it, probe::$boxed($l, $f), $chunk, 1).unwrap();
        let mut pos = 0usize;
        let mut xin = [0.0 as $T; $maxin];
        let mut out = [0.0 as $T; $maxout];
        $( warm!($nd, r, pos, xin, out, true, $region, $wr, $wn); )*
        let (newr, ramp, o) = sym_step!($nd, r, pos, xin, out, true, $region, $dom);
        probe_checks!($region);
        forget(r);
        (newr, ramp, o)
    }};
}

// MAXIN for call1 is inferred from the second const parameter of call1 via
// type annotation below; keep one place to set it per family.
pub const MAXIN_FI: usize = 6;

harnesses! {
    #[kani::unwind(10)]
    fn c03_ffi_nearest_full(nd) { ffi!(nd, f64, PolynomialDegree::Nearest, 2, 2.0, 4, 16, "base", full, [(1.0, 4)]); }
    #[kani::unwind(10)]
    fn c03_ffi_nearest_grid(nd) { ffi!(nd, f64, PolynomialDegree::Nearest, 2, 2.0, 4, 16, "base", grid, [(1.0, 4)]); }
    #[kani::unwind(10)]
    fn c03_ffi_linear_full(nd) { ffi!(nd, f64, PolynomialDegree::Linear, 2, 2.0, 4, 16, "base", full, [(0.5, 5)]); }
    #[kani::unwind(10)]
    fn c03_ffi_linear_grid(nd) { ffi!(nd, f64, PolynomialDegree::Linear, 2, 2.0, 4, 16, "base", grid, [(0.5, 5)]); }
    #[kani::unwind(14)]
    fn c03_ffi_cubic_full(nd) { ffi!(nd, f32, PolynomialDegree::Cubic, 2, 3.0, 4, 18, "base", full, [(3.0, 4)]); }
    #[kani::unwind(14)]
    fn c03_ffi_cubic_grid(nd) { ffi!(nd, f32, PolynomialDegree::Cubic, 2, 3.0, 4, 18, "base", grid, [(3.0, 4)]); }
    #[kani::unwind(12)]
    fn c03_ffi_quintic_full(nd) { ffi!(nd, f32, PolynomialDegree::Quintic, 3, 2.0, 5, 18, "base", full, [(0.5, 4)]); }
    #[kani::unwind(12)]
    fn c03_ffi_quintic_grid(nd) { ffi!(nd, f32, PolynomialDegree::Quintic, 3, 2.0, 5, 18, "base", grid, [(0.5, 4)]); }
    #[kani::unwind(12)]
    fn c03_ffi_septic_full(nd) { ffi!(nd, f32, PolynomialDegree::Septic, 3, 2.0, 5, 18, "base", full, [(1.0, 3)]); }
    #[kani::unwind(12)]
    fn c03_ffi_septic_grid(nd) { ffi!(nd, f32, PolynomialDegree::Septic, 3, 2.0, 5, 18, "base", grid, [(1.0, 3)]); }
    #[kani::unwind(20)]
    fn c03_ffo_nearest_full(nd) { ffo!(nd, f64, PolynomialDegree::Nearest, 2, 2.0, 12, 4, "base", full, []); }
    #[kani::unwind(20)]
    fn c03_ffo_nearest_grid(nd) { ffo!(nd, f64, PolynomialDegree::Nearest, 2, 2.0, 12, 4, "base", grid, []); }
    #[kani::unwind(24)]
    fn c03_ffo_linear_full(nd) { ffo!(nd, f64, PolynomialDegree::Linear, 3, 3.0, 17, 5, "base", full, [(1.0 / 3.0, 2)]); }
    #[kani::unwind(24)]
    fn c03_ffo_linear_grid(nd) { ffo!(nd, f64, PolynomialDegree::Linear, 3, 3.0, 17, 5, "base", grid, [(1.0 / 3.0, 2)]); }
    #[kani::unwind(22)]
    fn c03_ffo_cubic_full(nd) { ffo!(nd, f32, PolynomialDegree::Cubic, 2, 3.0, 14, 4, "base", full, [(3.0, 2)]); }
    #[kani::unwind(22)]
    fn c03_ffo_cubic_grid(nd) { ffo!(nd, f32, PolynomialDegree::Cubic, 2, 3.0, 14, 4, "base", grid, [(3.0, 2)]); }
    #[kani::unwind(20)]
    fn c03_ffo_quintic_full(nd) { ffo!(nd, f32, PolynomialDegree::Quintic, 2, 2.0, 12, 4, "base", full, [(0.5, 1)]); }
    #[kani::unwind(20)]
    fn c03_ffo_quintic_grid(nd) { ffo!(nd, f32, PolynomialDegree::Quintic, 2, 2.0, 12, 4, "base", grid, [(0.5, 1)]); }
    #[kani::unwind(20)]
    fn c03_ffo_septic_full(nd) { ffo!(nd, f32, PolynomialDegree::Septic, 2, 2.0, 12, 4, "base", full, [(1.0, 1)]); }
    #[kani::unwind(20)]
    fn c03_ffo_septic_grid(nd) { ffo!(nd, f32, PolynomialDegree::Septic, 2, 2.0, 12, 4, "base", grid, [(1.0, 1)]); }
    #[kani::unwind(10)]
    fn c03_sfi_nearest_full(nd) { sfi!(nd, f64, boxed64, SincInterpolationType::Nearest, 8, 1, 2, 2.0, 4, 16, "base", full, [(1.0, 4)]); }
    #[kani::unwind(10)]
    fn c03_sfi_nearest_grid(nd) { sfi!(nd, f64, boxed64, SincInterpolationType::Nearest, 8, 1, 2, 2.0, 4, 16, "base", grid, [(1.0, 4)]); }
    #[kani::unwind(10)]
    fn c03_sfi_linear_full(nd) { sfi!(nd, f64, boxed64, SincInterpolationType::Linear, 8, 2, 2, 2.0, 4, 16, "base", full, [(0.5, 5)]); }
    #[kani::unwind(10)]
    fn c03_sfi_linear_grid(nd) { sfi!(nd, f64, boxed64, SincInterpolationType::Linear, 8, 2, 2, 2.0, 4, 16, "base", grid, [(0.5, 5)]); }
    #[kani::unwind(10)]
    fn c03_sfi_cubic_full(nd) { sfi!(nd, f32, boxed32, SincInterpolationType::Cubic, 8, 4, 2, 2.0, 4, 16, "base", full, [(2.0, 3)]); }
    #[kani::unwind(10)]
    fn c03_sfi_cubic_grid(nd) { sfi!(nd, f32, boxed32, SincInterpolationType::Cubic, 8, 4, 2, 2.0, 4, 16, "base", grid, [(2.0, 3)]); }
    #[kani::unwind(14)]
    fn c03_sfi_quadratic_full(nd) { sfi!(nd, f32, boxed32, SincInterpolationType::Quadratic, 8, 3, 2, 3.0, 4, 18, "base", full, [(3.0, 4)]); }
    #[kani::unwind(14)]
    fn c03_sfi_quadratic_grid(nd) { sfi!(nd, f32, boxed32, SincInterpolationType::Quadratic, 8, 3, 2, 3.0, 4, 18, "base", grid, [(3.0, 4)]); }
    #[kani::unwind(20)]
    fn c03_sfo_nearest_full(nd) { sfo!(nd, f64, boxed64, SincInterpolationType::Nearest, 8, 1, 2, 2.0, 12, 4, "base", full, []); }
    #[kani::unwind(20)]
    fn c03_sfo_nearest_grid(nd) { sfo!(nd, f64, boxed64, SincInterpolationType::Nearest, 8, 1, 2, 2.0, 12, 4, "base", grid, []); }
    #[kani::unwind(24)]
    fn c03_sfo_linear_full(nd) { sfo!(nd, f64, boxed64, SincInterpolationType::Linear, 8, 2, 3, 3.0, 17, 5, "base", full, [(1.0 / 3.0, 2)]); }
    #[kani::unwind(24)]
    fn c03_sfo_linear_grid(nd) { sfo!(nd, f64, boxed64, SincInterpolationType::Linear, 8, 2, 3, 3.0, 17, 5, "base", grid, [(1.0 / 3.0, 2)]); }
    #[kani::unwind(20)]
    fn c03_sfo_cubic_full(nd) { sfo!(nd, f32, boxed32, SincInterpolationType::Cubic, 8, 4, 3, 2.0, 14, 5, "base", full, [(1.0, 1)]); }
    #[kani::unwind(20)]
    fn c03_sfo_cubic_grid(nd) { sfo!(nd, f32, boxed32, SincInterpolationType::Cubic, 8, 4, 3, 2.0, 14, 5, "base", grid, [(1.0, 1)]); }
    #[kani::unwind(22)]
    fn c03_sfo_quadratic_full(nd) { sfo!(nd, f32, boxed32, SincInterpolationType::Quadratic, 8, 3, 2, 3.0, 14, 4, "base", full, [(3.0, 2)]); }
    #[kani::unwind(22)]
    fn c03_sfo_quadratic_grid(nd) { sfo!(nd, f32, boxed32, SincInterpolationType::Quadratic, 8, 3, 2, 3.0, 14, 4, "base", grid, [(3.0, 2)]); }




    // ---- thorough: two successive symbolic steps (each: setter with any accepted value + call)
    #[kani::unwind(10)]
    fn c03_ffo_two_steps(nd) {
        let mut r = FastFixedOut::<f64>::new(1.0, 2.0, PolynomialDegree::Nearest, 2, 1).unwrap();
        let mut pos = 0usize;
        let mut xin = [0.0f64; 12];
        let mut out = [0.0f64; 4];
        warm!(nd, r, pos, xin, out, true, "base", 1.0, 1);
        let _ = sym_step!(nd, r, pos, xin, out, true, "base", full);
        let _ = sym_step!(nd, r, pos, xin, out, true, "base", full);
        forget(r);
    }
    #[kani::unwind(10)]
    fn c03_sfo_two_steps(nd) {
        probe::reset_flags();
        let mut r = SincFixedOut::<f64>::new_with_interpolator(1.0, 2.0, SincInterpolationType::Nearest, probe::boxed64(8, 1), 2, 1).unwrap();
        let mut pos = 0usize;
        let mut xin = [0.0f64; 12];
        let mut out = [0.0f64; 4];
        warm!(nd, r, pos, xin, out, true, "base", 1.0, 1);
        let _ = sym_step!(nd, r, pos, xin, out, true, "base", full);
        let _ = sym_step!(nd, r, pos, xin, out, true, "base", full);
        probe_checks!("base");
        forget(r);
    }
    #[kani::unwind(12)]
    fn c03_ffi_two_steps(nd) {
        let mut r = FastFixedIn::<f64>::new(1.0, 2.0, PolynomialDegree::Nearest, 2, 1).unwrap();
        let mut pos = 0usize;
        let mut xin = [0.0f64; 4];
        let mut out = [0.0f64; 16];
        warm!(nd, r, pos, xin, out, false, "base", 1.0, 4);
        let _ = sym_step!(nd, r, pos, xin, out, false, "base", grid);
        let _ = sym_step!(nd, r, pos, xin, out, false, "base", grid);
        forget(r);
    }


    // ---- reset() in the history: lowered ratio, call, reset, then a symbolic step and a second call
    #[kani::unwind(44)]
    fn c03_ffo_reset_step(nd) {
        let mut r = FastFixedOut::<f64>::new(1.0, 2.0, PolynomialDegree::Nearest, 2, 1).unwrap();
        let mut pos = 0usize;
        let mut xin = [0.0f64; 12];
        let mut out = [0.0f64; 4];
        warm!(nd, r, pos, xin, out, true, "base", 0.5, 1);
        r.reset();
        let _ = sym_step!(nd, r, pos, xin, out, true, "base", grid);
        let o = call1(nd, &mut r, &mut pos, 0, 0, &mut xin, &mut out);
        obs_checks!(o, true, "base");
        forget(r);
    }
    #[kani::unwind(44)]
    fn c03_sfo_reset_step(nd) {
        probe::reset_flags();
        let mut r = SincFixedOut::<f64>::new_with_interpolator(1.0, 2.0, SincInterpolationType::Nearest, probe::boxed64(8, 1), 2, 1).unwrap();
        let mut pos = 0usize;
        let mut xin = [0.0f64; 12];
        let mut out = [0.0f64; 4];
        warm!(nd, r, pos, xin, out, true, "base", 0.5, 1);
        r.reset();
        let _ = sym_step!(nd, r, pos, xin, out, true, "base", grid);
        let o = call1(nd, &mut r, &mut pos, 0, 0, &mut xin, &mut out);
        obs_checks!(o, true, "base");
        probe_checks!("base");
        forget(r);
    }


    // set_chunk_size, a call, reset(): the restored chunk size and the next input need must belong
    // together (both from the construction values); two plain calls after the reset
    #[kani::unwind(44)]
    fn c03_sfo_chunk_reset_plain(nd) {
        probe::reset_flags();
        let mut r = SincFixedOut::<f64>::new_with_interpolator(1.0, 1.25, SincInterpolationType::Nearest, probe::boxed64(2, 1), 8, 1).unwrap();
        let c = nd.usize_in(1, 8);
        check!(r.set_chunk_size(c).is_ok(), "C03.ok[base]");
        let mut pos = 0usize;
        let mut xin = [0.0f64; 20];
        let mut out = [0.0f64; 8];
        let o = call1(nd, &mut r, &mut pos, 0, 0, &mut xin, &mut out);
        obs_checks!(o, true, "base");
        r.reset();
        let o = call1(nd, &mut r, &mut pos, 0, 0, &mut xin, &mut out);
        obs_checks!(o, true, "base");
        let o = call1(nd, &mut r, &mut pos, 0, 0, &mut xin, &mut out);
        obs_checks!(o, true, "base");
        probe_checks!("base");
        cover!(c < 8, "smaller chunk before the reset");
        forget(r);
    }

    // ---- reset() must size the next input from the ORIGINAL ratio: symbolic ratio before the reset,
    // then two plain calls (no setter in between, which would recompute the need)
    #[kani::unwind(64)]
    fn c03_ffo_reset_plain(nd) {
        let mut r = FastFixedOut::<f64>::new(1.0, 2.0, PolynomialDegree::Nearest, 10, 1).unwrap();
        let k = nd.u8();
        let pre = (k as f64) / 32.0;
        let ramp = nd.bool();
        nd.assume(r.set_resample_ratio(pre, ramp).is_ok());
        r.reset();
        let mut pos = 0usize;
        let mut xin = [0.0f64; 28];
        let mut out = [0.0f64; 12];
        let o = call1(nd, &mut r, &mut pos, 0, 0, &mut xin, &mut out);
        obs_checks!(o, true, "base");
        let o = call1(nd, &mut r, &mut pos, 0, 0, &mut xin, &mut out);
        obs_checks!(o, true, "base");
        cover!(pre < 0.6, "ratio lowered before the reset");
        forget(r);
    }

    // ---- three successive ratio changes on tiny chunks (each setter recomputes the input need)
    #[kani::unwind(10)]
    fn c03_ffo_three_changes(nd) { ffo!(nd, f64, PolynomialDegree::Linear, 3, 2.0, 14, 5, "base", grid, [(1.0, 1), (1.25, 1), (1.25, 1)]); }
    #[kani::unwind(10)]
    fn c03_sfo_three_changes(nd) { sfo!(nd, f64, boxed64, SincInterpolationType::Linear, 8, 2, 3, 2.0, 14, 5, "base", grid, [(1.0, 1), (1.25, 1), (1.25, 1)]); }

    // ---- recorded finding: oversampling factor 1 with Quadratic / Cubic interpolation asks the
    // kernel for a sub-filter index >= nbr_sincs (region `oversampling_1`)
    #[kani::unwind(10)]
    fn c03_sfo_os1_cubic(nd) { sfo!(nd, f64, boxed64, SincInterpolationType::Cubic, 8, 1, 2, 2.0, 12, 4, "oversampling_1", grid, []); }
    #[kani::unwind(10)]
    fn c03_sfo_os1_cubic_kf(nd) {
        // concrete witness of F-OS1: first call of a fresh instance
        probe::reset_flags();
        let mut r = SincFixedOut::<f64>::new_with_interpolator(1.0, 1.0, SincInterpolationType::Cubic, probe::boxed64(8, 1), 2, 1).unwrap();
        let mut pos = 0usize;
        let mut xin = [0.0f64; 8];
        let mut out = [0.0f64; 4];
        let o = call1(nd, &mut r, &mut pos, 0, 0, &mut xin, &mut out);
        obs_checks!(o, true, "oversampling_1");
        probe_checks!("oversampling_1");
        forget(r);
    }
    #[kani::unwind(10)]
    fn c03_sfo_os1_quadratic(nd) { sfo!(nd, f64, boxed64, SincInterpolationType::Quadratic, 8, 1, 2, 2.0, 12, 4, "oversampling_1", grid, []); }
    // control: Linear and Nearest are fine with a single sub-filter
    #[kani::unwind(10)]
    fn c03_sfo_os1_linear(nd) { sfo!(nd, f64, boxed64, SincInterpolationType::Linear, 8, 1, 2, 2.0, 12, 4, "base", grid, []); }

    // vacuity witness (must FAIL)
    #[kani::unwind(20)]
    fn c03_witness(nd) {
        let (_, _, o) = ffo!(nd, f64, PolynomialDegree::Nearest, 2, 2.0, 12, 4, "base", full, []);
        check!(!o.ok, "WITNESS.c03");
    }
}
