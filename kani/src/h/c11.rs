//! C11 — channels are independent; masked-out channels are skipped and left
//! untouched. A 2-channel instance against two single-channel twins, symbolic
//! mask, symbolic sample data through copy-only kernels.
use crate::probe;
use crate::util::*;
use crate::{check, cover, harnesses, unroll32};
use rubato::{
    FastFixedIn, FastFixedOut, FftFixedIn, FftFixedInOut, FftFixedOut, PolynomialDegree, Resampler,
    SincFixedIn, SincFixedOut, SincInterpolationType,
};

/// One call on the 2-channel instance `$m` and on the twins `$s0`, `$s1`.
/// `$data`: sym = symbolic finite samples, line = two distinct index lines.
macro_rules! multi_vs_single {
    ($nd:ident, $m:ident, $s0:ident, $s1:ident, $T:ty, $MI:expr, $MO:expr, $data:ident) => {{
        let use_mask = $nd.bool();
        let m0 = $nd.bool();
        let m1 = $nd.bool();
        let mb = [m0, m1];
        let mask: Option<&[bool]> = if use_mask { Some(&mb[..]) } else { None };
        let act0 = !use_mask || m0;
        let act1 = !use_mask || m1;
        let n = $m.input_frames_next();
        check!(n == $s0.input_frames_next() && n == $s1.input_frames_next(), "C11.counts_next[base]");
        $nd.assume(n <= $MI);
        let mut x0 = [0.0 as $T; $MI];
        let mut x1 = [0.0 as $T; $MI];
        multi_vs_single!(@fill $nd, $T, $MI, x0, x1, $data);
        let sent = SENT as $T;
        let mut o0 = [sent; $MO];
        let mut o1 = [sent; $MO];
        let mut p0 = [sent; $MO];
        let mut p1 = [sent; $MO];
        // inactive channels are passed EMPTY input slices
        let l0 = if act0 { n } else { 0 };
        let l1 = if act1 { n } else { 0 };
        let rm = $m.process_into_buffer(&[&x0[..l0], &x1[..l1]], &mut [&mut o0[..], &mut o1[..]], mask);
        let r0 = $s0.process_into_buffer(&[&x0[..n]], &mut [&mut p0[..]], None);
        let r1 = $s1.process_into_buffer(&[&x1[..n]], &mut [&mut p1[..]], None);
        match (rm, r0, r1) {
            (Ok(cm), Ok(c0), Ok(c1)) => {
                check!(cm == c0 && cm == c1, "C11.mask_transparent_counts[base]");
                let mut eq0 = true;
                let mut eq1 = true;
                let mut clean0 = true;
                let mut clean1 = true;
                unroll32!(i, $MO, {
                    if o0[i].to_bits() != p0[i].to_bits() { eq0 = false; }
                    if o1[i].to_bits() != p1[i].to_bits() { eq1 = false; }
                    if o0[i].to_bits() != sent.to_bits() { clean0 = false; }
                    if o1[i].to_bits() != sent.to_bits() { clean1 = false; }
                });
                if act0 { check!(eq0, "C11.channel_equals_single[base]"); } else { check!(clean0, "C11.masked_untouched[base]"); }
                if act1 { check!(eq1, "C11.channel_equals_single[base]"); } else { check!(clean1, "C11.masked_untouched[base]"); }
                cover!(cm.1 > 0 && act0 && act1, "both channels active, frames produced");
                cover!(use_mask && !m0 && !m1, "all-false mask");
                cover!(use_mask && m0 && !m1 && cm.1 > 0, "second channel masked");
            }
            _ => { check!(false, "C11.ok[base]"); }
        }
        check!($m.input_frames_next() == $s0.input_frames_next() && $m.output_frames_next() == $s0.output_frames_next(),
            "C11.state_counts[base]");
    }};
    (@fill $nd:ident, $T:ty, $MI:expr, $x0:ident, $x1:ident, sym) => {
        unroll32!(i, $MI, {
            let a = $nd.f32();
            let b = $nd.f32();
            $nd.assume(a.is_finite() && b.is_finite());
            $x0[i] = a as $T;
            $x1[i] = b as $T;
        });
    };
    (@fill $nd:ident, $T:ty, $MI:expr, $x0:ident, $x1:ident, line) => {
        crate::drive::fill_line(&mut $x0[..], 0);
        crate::drive::fill_line(&mut $x1[..], 500);
    };
}

harnesses! {
    #[kani::unwind(10)]
    fn c11_ffo_sym(nd) {
        let mk = |c| FastFixedOut::<f64>::new(1.0, 1.5, PolynomialDegree::Nearest, 6, c).unwrap();
        let (mut m, mut s0, mut s1) = (mk(2), mk(1), mk(1));
        multi_vs_single!(nd, m, s0, s1, f64, 10, 6, sym);
        forget(m); forget(s0); forget(s1);
    }
    #[kani::unwind(10)]
    fn c11_ffo_linear_line(nd) {
        let mk = |c| FastFixedOut::<f32>::new(0.75, 1.5, PolynomialDegree::Linear, 5, c).unwrap();
        let (mut m, mut s0, mut s1) = (mk(2), mk(1), mk(1));
        multi_vs_single!(nd, m, s0, s1, f32, 11, 5, line);
        forget(m); forget(s0); forget(s1);
    }
    #[kani::unwind(10)]
    fn c11_sfo_sym(nd) {
        probe::reset_flags();
        let mk = |c| SincFixedOut::<f64>::new_with_interpolator(1.0, 1.5, SincInterpolationType::Nearest, probe::boxed64(2, 1), 4, c).unwrap();
        let (mut m, mut s0, mut s1) = (mk(2), mk(1), mk(1));
        multi_vs_single!(nd, m, s0, s1, f64, 5, 4, sym);
        forget(m); forget(s0); forget(s1);
    }
    #[kani::unwind(20)]
    fn c11_sfi_sym(nd) {
        probe::reset_flags();
        let mk = |c| SincFixedIn::<f64>::new_with_interpolator(1.0, 1.0, SincInterpolationType::Nearest, probe::boxed64(2, 1), 6, c).unwrap();
        let (mut m, mut s0, mut s1) = (mk(2), mk(1), mk(1));
        multi_vs_single!(nd, m, s0, s1, f64, 6, 16, sym);
        forget(m); forget(s0); forget(s1);
    }
    #[kani::unwind(26)]
    fn c11_ffi_line(nd) {
        let mk = |c| FastFixedIn::<f64>::new(1.0, 1.0, PolynomialDegree::Linear, 12, c).unwrap();
        let (mut m, mut s0, mut s1) = (mk(2), mk(1), mk(1));
        multi_vs_single!(nd, m, s0, s1, f64, 12, 22, line);
        forget(m); forget(s0); forget(s1);
    }
    #[kani::unwind(10)]
    #[kani::stub(realfft::RealFftPlanner::<f64>::new, crate::stubs::planner_new)]
    #[kani::stub(realfft::RealFftPlanner::<f64>::plan_fft_forward, crate::stubs::plan_fwd)]
    #[kani::stub(realfft::RealFftPlanner::<f64>::plan_fft_inverse, crate::stubs::plan_inv)]
    #[kani::stub(rubato::sinc::make_sincs, crate::stubs::make_sincs_unit)]
    fn c11_ftio_sym(nd) {
        let mk = |c| FftFixedInOut::<f64>::new(2, 3, 2, c).unwrap();
        let (mut m, mut s0, mut s1) = (mk(2), mk(1), mk(1));
        // two calls: the second exercises the per-channel overlap buffers
        multi_vs_single!(nd, m, s0, s1, f64, 2, 3, sym);
        multi_vs_single!(nd, m, s0, s1, f64, 2, 3, line);
        forget(m); forget(s0); forget(s1);
    }
    #[kani::unwind(12)]
    #[kani::stub(realfft::RealFftPlanner::<f64>::new, crate::stubs::planner_new)]
    #[kani::stub(realfft::RealFftPlanner::<f64>::plan_fft_forward, crate::stubs::plan_fwd)]
    #[kani::stub(realfft::RealFftPlanner::<f64>::plan_fft_inverse, crate::stubs::plan_inv)]
    #[kani::stub(rubato::sinc::make_sincs, crate::stubs::make_sincs_unit)]
    fn c11_fto_line(nd) {
        let mk = |c| FftFixedOut::<f64>::new(2, 3, 4, 1, c).unwrap();
        let (mut m, mut s0, mut s1) = (mk(2), mk(1), mk(1));
        multi_vs_single!(nd, m, s0, s1, f64, 4, 4, line);
        forget(m); forget(s0); forget(s1);
    }
    #[kani::unwind(12)]
    #[kani::stub(realfft::RealFftPlanner::<f64>::new, crate::stubs::planner_new)]
    #[kani::stub(realfft::RealFftPlanner::<f64>::plan_fft_forward, crate::stubs::plan_fwd)]
    #[kani::stub(realfft::RealFftPlanner::<f64>::plan_fft_inverse, crate::stubs::plan_inv)]
    #[kani::stub(rubato::sinc::make_sincs, crate::stubs::make_sincs_unit)]
    fn c11_fti_line(nd) {
        let mk = |c| FftFixedIn::<f64>::new(2, 3, 4, 1, c).unwrap();
        let (mut m, mut s0, mut s1) = (mk(2), mk(1), mk(1));
        multi_vs_single!(nd, m, s0, s1, f64, 4, 6, line);
        forget(m); forget(s0); forget(s1);
    }

    // vacuity witness (must FAIL): twins with different data
    #[kani::unwind(10)]
    fn c11_witness(nd) {
        let mk = |c| FastFixedOut::<f64>::new(1.0, 1.5, PolynomialDegree::Nearest, 6, c).unwrap();
        let (mut m, mut s0, mut s1) = (mk(2), mk(1), mk(1));
        multi_vs_single!(nd, m, s1, s0, f64, 10, 6, line);
        forget(m); forget(s0); forget(s1);
    }
}
