//! C11 — channels are independent; masked-out channels are skipped and left
//! untouched. A 2-channel instance against two single-channel twins, symbolic
//! mask, symbolic sample data through copy-only kernels.
use crate::probe;
use crate::util::*;
use crate::{check, cover, harnesses, unroll32};
use rubato::{
    FastFixedIn, FastFixedOut, FftFixedIn, FftFixedInOut, FftFixedOut, PolynomialDegree, Resampler,
    SincFixedIn, SincFixedOut, SincInterpolationType,
};

/// One call on the 2-channel instance `$m` and on ONE single-channel twin `$s` that stands for
/// channel `$c` (concrete per harness; the other channel has its own harness).
/// `$data`: sym = symbolic finite samples, line = two distinct index lines.
macro_rules! multi_vs_single {
    ($nd:ident, $m:ident, $s:ident, $c:expr, $T:ty, $MI:expr, $MO:expr, $data:ident) => {{
        let use_mask = $nd.bool();
        let m0 = $nd.bool();
        let m1 = $nd.bool();
        multi_vs_single!($nd, $m, $s, $c, $T, $MI, $MO, $data, use_mask, m0, m1)
    }};
    // the mask is drawn by the caller: held CONSTANT over the calls of one stream (the property's premise)
    ($nd:ident, $m:ident, $s:ident, $c:expr, $T:ty, $MI:expr, $MO:expr, $data:ident, $use_mask:expr, $m0:expr, $m1:expr) => {{
        let use_mask: bool = $use_mask;
        let m0: bool = $m0;
        let m1: bool = $m1;
        let mb = [m0, m1];
        let mask: Option<&[bool]> = if use_mask { Some(&mb[..]) } else { None };
        let act0 = !use_mask || m0;
        let act1 = !use_mask || m1;
        let n = $m.input_frames_next();
        check!(n == $s.input_frames_next(), "C11.counts_next[base]");
        $crate::fit!($nd, n <= $MI, "C11.demand_fits_scenario_bound[base]");
        let mut x0 = [0.0 as $T; $MI];
        let mut x1 = [0.0 as $T; $MI];
        multi_vs_single!(@fill $nd, $T, $MI, x0, x1, $data);
        let sent = SENT as $T;
        let mut o0 = [sent; $MO];
        let mut o1 = [sent; $MO];
        let mut p = [sent; $MO];
        // inactive channels are passed EMPTY input slices
        let l0 = if act0 { n } else { 0 };
        let l1 = if act1 { n } else { 0 };
        let rm = $m.process_into_buffer(&[&x0[..l0], &x1[..l1]], &mut [&mut o0[..], &mut o1[..]], mask);
        let rs = if $c == 0 { $s.process_into_buffer(&[&x0[..n]], &mut [&mut p[..]], None) }
                 else { $s.process_into_buffer(&[&x1[..n]], &mut [&mut p[..]], None) };
        match (rm, rs) {
            (Ok(cm), Ok(cs)) => {
                check!(cm == cs, "C11.mask_transparent_counts[base]");
                let mut eqc = true;
                let mut clean0 = true;
                let mut clean1 = true;
                unroll32!(i, $MO, {
                    let oc = if $c == 0 { o0[i] } else { o1[i] };
                    if oc.to_bits() != p[i].to_bits() { eqc = false; }
                    if o0[i].to_bits() != sent.to_bits() { clean0 = false; }
                    if o1[i].to_bits() != sent.to_bits() { clean1 = false; }
                });
                let actc = if $c == 0 { act0 } else { act1 };
                if actc { check!(eqc, "C11.channel_equals_single[base]"); }
                if !act0 { check!(clean0, "C11.masked_untouched[base]"); }
                if !act1 { check!(clean1, "C11.masked_untouched[base]"); }
                cover!(cm.1 > 0 && act0 && act1, "both channels active, frames produced");
                cover!(use_mask && !m0 && !m1, "all-false mask");
                cover!(use_mask && m0 != m1 && cm.1 > 0, "exactly one channel masked");
            }
            _ => { check!(false, "C11.ok[base]"); }
        }
        check!($m.input_frames_next() == $s.input_frames_next() && $m.output_frames_next() == $s.output_frames_next(),
            "C11.state_counts[base]");
    }};
    (@fill $nd:ident, $T:ty, $MI:expr, $x0:ident, $x1:ident, sym) => {
        unroll32!(i, $MI, {
            let a = $nd.f32();
            let b = $nd.f32();
            $nd.assume(a.is_finite() && b.is_finite());
            $x0[i] = a as $T;
            $x1[i] = b as $T;
        });
    };
    (@fill $nd:ident, $T:ty, $MI:expr, $x0:ident, $x1:ident, line) => {
        crate::drive::fill_line(&mut $x0[..], 0);
        crate::drive::fill_line(&mut $x1[..], 500);
    };
}

harnesses! {
    #[kani::unwind(10)]
    fn c11_ffo_ch1(nd) {
        let mk = |c| FastFixedOut::<f64>::new(1.0, 1.5, PolynomialDegree::Nearest, 6, c).unwrap();
        let (mut m, mut s) = (mk(2), mk(1));
        multi_vs_single!(nd, m, s, 1, f64, 10, 6, line);
        forget(m); forget(s);
    }
    #[kani::unwind(10)]
    fn c11_ffo_ch0_linear(nd) {
        let mk = |c| FastFixedOut::<f32>::new(0.75, 1.5, PolynomialDegree::Linear, 5, c).unwrap();
        let (mut m, mut s) = (mk(2), mk(1));
        multi_vs_single!(nd, m, s, 0, f32, 11, 5, line);
        forget(m); forget(s);
    }
    #[kani::unwind(8)]
    fn c11_sfo_ch1_sym(nd) {
        probe::reset_flags();
        let mk = |c| SincFixedOut::<f64>::new_with_interpolator(1.0, 1.5, SincInterpolationType::Nearest, probe::boxed64(2, 1), 2, c).unwrap();
        let (mut m, mut s) = (mk(2), mk(1));
        multi_vs_single!(nd, m, s, 1, f64, 3, 2, sym);
        forget(m); forget(s);
    }
    #[kani::unwind(8)]
    fn c11_sfo_ch0_sym(nd) {
        probe::reset_flags();
        let mk = |c| SincFixedOut::<f64>::new_with_interpolator(1.0, 1.5, SincInterpolationType::Nearest, probe::boxed64(2, 1), 2, c).unwrap();
        let (mut m, mut s) = (mk(2), mk(1));
        multi_vs_single!(nd, m, s, 0, f64, 3, 2, sym);
        forget(m); forget(s);
    }
    #[kani::unwind(18)]
    fn c11_sfi_ch1_sym(nd) {
        probe::reset_flags();
        let mk = |c| SincFixedIn::<f64>::new_with_interpolator(1.0, 1.0, SincInterpolationType::Nearest, probe::boxed64(2, 1), 5, c).unwrap();
        let (mut m, mut s) = (mk(2), mk(1));
        multi_vs_single!(nd, m, s, 1, f64, 5, 15, sym);
        forget(m); forget(s);
    }
    #[kani::unwind(26)]
    fn c11_ffi_ch1_line(nd) {
        let mk = |c| FastFixedIn::<f64>::new(1.0, 1.0, PolynomialDegree::Nearest, 10, c).unwrap();
        let (mut m, mut s) = (mk(2), mk(1));
        multi_vs_single!(nd, m, s, 1, f64, 10, 20, line);
        forget(m); forget(s);
    }
    #[kani::unwind(10)]
    #[kani::stub(realfft::RealFftPlanner::<f64>::new, crate::stubs::planner_new)]
    #[kani::stub(realfft::RealFftPlanner::<f64>::plan_fft_forward, crate::stubs::plan_fwd)]
    #[kani::stub(realfft::RealFftPlanner::<f64>::plan_fft_inverse, crate::stubs::plan_inv)]
    #[kani::stub(rubato::sinc::make_sincs, crate::stubs::make_sincs_unit)]
    fn c11_ftio_ch1(nd) {
        let mk = |c| FftFixedInOut::<f64>::new(2, 3, 2, c).unwrap();
        let (mut m, mut s) = (mk(2), mk(1));
        // two calls with the SAME mask: the second exercises the per-channel overlap buffers
        let use_mask = nd.bool();
        let m0 = nd.bool();
        let m1 = nd.bool();
        multi_vs_single!(nd, m, s, 1, f64, 2, 3, sym, use_mask, m0, m1);
        multi_vs_single!(nd, m, s, 1, f64, 2, 3, line, use_mask, m0, m1);
        forget(m); forget(s);
    }
    #[kani::unwind(12)]
    #[kani::stub(realfft::RealFftPlanner::<f64>::new, crate::stubs::planner_new)]
    #[kani::stub(realfft::RealFftPlanner::<f64>::plan_fft_forward, crate::stubs::plan_fwd)]
    #[kani::stub(realfft::RealFftPlanner::<f64>::plan_fft_inverse, crate::stubs::plan_inv)]
    #[kani::stub(rubato::sinc::make_sincs, crate::stubs::make_sincs_unit)]
    fn c11_fto_ch1(nd) {
        let mk = |c| FftFixedOut::<f64>::new(2, 3, 4, 2, c).unwrap();
        let (mut m, mut s) = (mk(2), mk(1));
        multi_vs_single!(nd, m, s, 1, f64, 4, 4, line);
        forget(m); forget(s);
    }
    #[kani::unwind(12)]
    #[kani::stub(realfft::RealFftPlanner::<f64>::new, crate::stubs::planner_new)]
    #[kani::stub(realfft::RealFftPlanner::<f64>::plan_fft_forward, crate::stubs::plan_fwd)]
    #[kani::stub(realfft::RealFftPlanner::<f64>::plan_fft_inverse, crate::stubs::plan_inv)]
    #[kani::stub(rubato::sinc::make_sincs, crate::stubs::make_sincs_unit)]
    fn c11_fti_ch0(nd) {
        let mk = |c| FftFixedIn::<f64>::new(2, 3, 4, 1, c).unwrap();
        let (mut m, mut s) = (mk(2), mk(1));
        multi_vs_single!(nd, m, s, 0, f64, 4, 6, line);
        forget(m); forget(s);
    }


    // quick, concrete: first channel masked (empty slice), second active - the pattern that breaks
    // "stop at the first inactive channel" style loops; symbolic-mask FixedIn variants are thorough
    #[kani::unwind(26)]
    fn c11_ffi_masked_first(nd) {
        let mk = |c| FastFixedIn::<f64>::new(1.0, 1.0, PolynomialDegree::Nearest, 10, c).unwrap();
        let (mut m, mut s) = (mk(2), mk(1));
        let mut x1 = [0.0f64; 10];
        crate::drive::fill_line(&mut x1[..], 500);
        let e: [f64; 0] = [];
        let mut o0 = [SENT; 20];
        let mut o1 = [SENT; 20];
        let mut p = [SENT; 20];
        let rm = m.process_into_buffer(&[&e[..], &x1[..]], &mut [&mut o0[..], &mut o1[..]], Some(&[false, true]));
        let rs = s.process_into_buffer(&[&x1[..]], &mut [&mut p[..]], None);
        check!(matches!((&rm, &rs), (Ok(a), Ok(b)) if a == b), "C11.mask_transparent_counts[base]");
        let mut eq = true;
        let mut clean = true;
        unroll32!(i, 20, {
            if o1[i].to_bits() != p[i].to_bits() { eq = false; }
            if o0[i].to_bits() != SENT.to_bits() { clean = false; }
        });
        check!(eq, "C11.channel_equals_single[base]");
        check!(clean, "C11.masked_untouched[base]");
        forget(m); forget(s);
    }
    #[kani::unwind(18)]
    fn c11_sfi_masked_first(nd) {
        probe::reset_flags();
        let mk = |c| SincFixedIn::<f64>::new_with_interpolator(1.0, 1.0, SincInterpolationType::Nearest, probe::boxed64(2, 1), 5, c).unwrap();
        let (mut m, mut s) = (mk(2), mk(1));
        let mut x1 = [0.0f64; 5];
        crate::drive::fill_line(&mut x1[..], 500);
        let e: [f64; 0] = [];
        let mut o0 = [SENT; 15];
        let mut o1 = [SENT; 15];
        let mut p = [SENT; 15];
        let rm = m.process_into_buffer(&[&e[..], &x1[..]], &mut [&mut o0[..], &mut o1[..]], Some(&[false, true]));
        let rs = s.process_into_buffer(&[&x1[..]], &mut [&mut p[..]], None);
        check!(matches!((&rm, &rs), (Ok(a), Ok(b)) if a == b), "C11.mask_transparent_counts[base]");
        let mut eq = true;
        let mut clean = true;
        unroll32!(i, 15, {
            if o1[i].to_bits() != p[i].to_bits() { eq = false; }
            if o0[i].to_bits() != SENT.to_bits() { clean = false; }
        });
        check!(eq, "C11.channel_equals_single[base]");
        check!(clean, "C11.masked_untouched[base]");
        forget(m); forget(s);
    }

    // chunk-size change between two calls, two channels with different signals: each channel still
    // equals the single-channel instance with the same history
    #[kani::unwind(18)]
    fn c11_sfi_chunk_change_2ch(nd) {
        probe::reset_flags();
        let mk = |c| SincFixedIn::<f64>::new_with_interpolator(1.0, 1.0, SincInterpolationType::Nearest, probe::boxed64(2, 1), 5, c).unwrap();
        let (mut m, mut s) = (mk(2), mk(1));
        let mut x0 = [0.0f64; 8];
        let mut x1 = [0.0f64; 8];
        crate::drive::fill_line(&mut x0[..], 0);
        crate::drive::fill_line(&mut x1[..], 500);
        let mut o0 = [SENT; 15];
        let mut o1 = [SENT; 15];
        let mut p = [SENT; 15];
        let rm = m.process_into_buffer(&[&x0[..5], &x1[..5]], &mut [&mut o0[..], &mut o1[..]], None);
        let rs = s.process_into_buffer(&[&x1[..5]], &mut [&mut p[..]], None);
        check!(matches!((&rm, &rs), (Ok(a), Ok(b)) if a == b), "C11.state_counts[base]");
        check!(m.set_chunk_size(3).is_ok() && s.set_chunk_size(3).is_ok(), "C03.ok[base]");
        let mut o0 = [SENT; 15];
        let mut o1 = [SENT; 15];
        let mut p = [SENT; 15];
        let rm = m.process_into_buffer(&[&x0[5..8], &x1[5..8]], &mut [&mut o0[..], &mut o1[..]], None);
        let rs = s.process_into_buffer(&[&x1[5..8]], &mut [&mut p[..]], None);
        check!(matches!((&rm, &rs), (Ok(a), Ok(b)) if a == b), "C11.state_counts[base]");
        let mut eq = true;
        unroll32!(i, 15, { if o1[i].to_bits() != p[i].to_bits() { eq = false; } });
        check!(eq, "C11.channel_equals_single[base]");
        forget(m); forget(s);
    }

    // vacuity witness (must FAIL): the twin stands for the OTHER channel
    #[kani::unwind(8)]
    fn c11_witness(nd) {
        probe::reset_flags();
        let mk = |c| SincFixedOut::<f64>::new_with_interpolator(1.0, 1.5, SincInterpolationType::Nearest, probe::boxed64(2, 1), 2, c).unwrap();
        let (mut m, mut s) = (mk(2), mk(1));
        let n = m.input_frames_next();
        crate::fit!(nd, n <= 3, "C11.demand_fits_scenario_bound[base]");
        let mut x0 = [0.0f64; 3];
        let mut x1 = [0.0f64; 3];
        crate::drive::fill_line(&mut x0[..], 0);
        crate::drive::fill_line(&mut x1[..], 500);
        let mut o0 = [SENT; 2];
        let mut o1 = [SENT; 2];
        let mut p = [SENT; 2];
        let rm = m.process_into_buffer(&[&x0[..n], &x1[..n]], &mut [&mut o0[..], &mut o1[..]], None);
        let rs = s.process_into_buffer(&[&x0[..n]], &mut [&mut p[..]], None);
        check!(rm.is_ok() && rs.is_ok() && o1[1].to_bits() == p[1].to_bits(), "WITNESS.c11[base]");
        forget(m); forget(s);
    }
}
