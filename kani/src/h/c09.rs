//! C09 — no heap traffic inside process_into_buffer, the setters, reset and
//! the getters. The global allocator entry points are stubbed by asserting
//! wrappers (see rt.rs); construction happens outside the real-time section.
use crate::probe;
use crate::rt;
use crate::util::*;
use crate::{check, cover, harnesses};
use rubato::{
    FastFixedIn, FastFixedOut, FftFixedIn, FftFixedInOut, FftFixedOut, PolynomialDegree, Resampler,
    SincFixedIn, SincFixedOut, SincInterpolationParameters, SincInterpolationType, WindowFunction,
};

/// Everything the property names, inside one real-time section:
/// getters, a call (no mask), a call with a mask, both setters with symbolic
/// arguments (accepted and rejected), set_chunk_size (symbolic), a malformed
/// call (error path), reset, a call after reset.
macro_rules! rt_section {
    // part A: concrete history (every call constant-folds): getters, call, accepted ramped
    // change, masked call, set_chunk_size, reset, call after reset
    (A, $nd:ident, $r:ident, $T:ty, $MI:expr, $MO:expr) => {{
        cover!(rt::allocs_outside() > 0, "constructor allocations are seen by the monitor");
        let x0 = [0.25 as $T; $MI];
        let x1 = [0.5 as $T; $MI];
        let mut y0 = [0.0 as $T; $MO];
        let mut y1 = [0.0 as $T; $MO];
        rt::begin();
        let g = ($r.input_frames_next(), $r.output_frames_next(), $r.input_frames_max(), $r.output_frames_max(),
                 $r.output_delay(), $r.nbr_channels());
        let r1 = $r.process_into_buffer(&[&x0[..], &x1[..]], &mut [&mut y0[..], &mut y1[..]], None);
        let s1 = $r.set_resample_ratio_relative(0.75, true);
        let r2 = $r.process_into_buffer(&[&x0[..], &x1[..]], &mut [&mut y0[..], &mut y1[..]], Some(&[true, false]));
        let s0 = $r.set_chunk_size(2);
        let r5 = $r.process_into_buffer(&[&x0[..], &x1[..]], &mut [&mut y0[..], &mut y1[..]], Some(&[false, false]));
        $r.reset();
        let r4 = $r.process_into_buffer(&[&x0[..], &x1[..]], &mut [&mut y0[..], &mut y1[..]], None);
        let g2 = ($r.input_frames_next(), $r.output_frames_next());
        rt::end();
        cover!(r1.is_ok() && r2.is_ok() && r4.is_ok() && r5.is_ok(), "calls succeeded");
        cover!(matches!(&r1, Ok((_, n)) if *n > 0) || matches!(&r2, Ok((_, n)) if *n > 0) || matches!(&r4, Ok((_, n)) if *n > 0),
            "a call inside the section produced frames");
        check!(g.5 == 2, "C09.harness_sanity[base]");
        forget((r1, r2, r4, r5, s0, s1, g2));
    }};
    // part B: fresh instance, symbolic arguments: both setters (any f64), set_chunk_size (any
    // usize), then a call with a symbolic mask and a possibly too-short channel (error path)
    (B, $nd:ident, $r:ident, $T:ty, $MI:expr, $MO:expr) => {{
        let x0 = [0.25 as $T; $MI];
        let x1 = [0.5 as $T; $MI];
        let mut y0 = [0.0 as $T; $MO];
        let mut y1 = [0.0 as $T; $MO];
        let a = $nd.f64();
        let b = $nd.f64();
        let ramp = $nd.bool();
        let csz = $nd.usize();
        let m1 = $nd.bool();
        let short = $nd.usize_in(0, $MI);
        rt::begin();
        let s2 = $r.set_resample_ratio(a, ramp);
        let s3 = $r.set_resample_ratio_relative(b, ramp);
        let s4 = $r.set_chunk_size(csz);
        let r3 = $r.process_into_buffer(&[&x0[..short], &x1[..]], &mut [&mut y0[..], &mut y1[..]], Some(&[true, m1]));
        let g2 = ($r.input_frames_next(), $r.output_frames_next(), $r.output_delay());
        rt::end();
        cover!(r3.is_err(), "error path taken");
        cover!(r3.is_ok(), "call succeeded");
        cover!(a.is_nan() && s2.is_err(), "NaN rejected");
        cover!(s2.is_ok() && s3.is_err(), "accepted then rejected");
        forget((r3, s2, s3, s4, g2));
    }};
}

harnesses! {
    #[kani::unwind(40)]
    #[kani::stub(std::alloc::alloc, crate::rt::k_alloc)]
    #[kani::stub(std::alloc::alloc_zeroed, crate::rt::k_alloc_zeroed)]
    #[kani::stub(std::alloc::dealloc, crate::rt::k_dealloc)]
    #[kani::stub(std::alloc::realloc, crate::rt::k_realloc)]
    #[kani::stub(alloc::alloc::realloc_nonnull, crate::rt::k_realloc_nn)]
    #[kani::stub(alloc::alloc::dealloc_nonnull, crate::rt::k_dealloc_nn)]
    fn c09_ffo_a(nd) {
        let mut r = FastFixedOut::<f64>::new(1.0, 2.0, PolynomialDegree::Linear, 2, 2).unwrap();
        rt_section!(A, nd, r, f64, 12, 2);
        forget(r);
    }

    #[kani::unwind(8)]
    #[kani::stub(std::alloc::alloc, crate::rt::k_alloc)]
    #[kani::stub(std::alloc::alloc_zeroed, crate::rt::k_alloc_zeroed)]
    #[kani::stub(std::alloc::dealloc, crate::rt::k_dealloc)]
    #[kani::stub(std::alloc::realloc, crate::rt::k_realloc)]
    #[kani::stub(alloc::alloc::realloc_nonnull, crate::rt::k_realloc_nn)]
    #[kani::stub(alloc::alloc::dealloc_nonnull, crate::rt::k_dealloc_nn)]
    fn c09_ffo_b(nd) {
        let mut r = FastFixedOut::<f64>::new(1.0, 2.0, PolynomialDegree::Linear, 2, 2).unwrap();
        rt_section!(B, nd, r, f64, 12, 2);
        forget(r);
    }

    #[kani::unwind(40)]
    #[kani::stub(std::alloc::alloc, crate::rt::k_alloc)]
    #[kani::stub(std::alloc::alloc_zeroed, crate::rt::k_alloc_zeroed)]
    #[kani::stub(std::alloc::dealloc, crate::rt::k_dealloc)]
    #[kani::stub(std::alloc::realloc, crate::rt::k_realloc)]
    #[kani::stub(alloc::alloc::realloc_nonnull, crate::rt::k_realloc_nn)]
    #[kani::stub(alloc::alloc::dealloc_nonnull, crate::rt::k_dealloc_nn)]
    fn c09_ffi_a(nd) {
        // chunk 10: the first call already produces frames (the frame loop is inside the section)
        let mut r = FastFixedIn::<f32>::new(1.0, 2.0, PolynomialDegree::Nearest, 10, 2).unwrap();
        rt_section!(A, nd, r, f32, 10, 30);
        forget(r);
    }

    #[kani::unwind(8)]
    #[kani::stub(std::alloc::alloc, crate::rt::k_alloc)]
    #[kani::stub(std::alloc::alloc_zeroed, crate::rt::k_alloc_zeroed)]
    #[kani::stub(std::alloc::dealloc, crate::rt::k_dealloc)]
    #[kani::stub(std::alloc::realloc, crate::rt::k_realloc)]
    #[kani::stub(alloc::alloc::realloc_nonnull, crate::rt::k_realloc_nn)]
    #[kani::stub(alloc::alloc::dealloc_nonnull, crate::rt::k_dealloc_nn)]
    fn c09_ffi_b(nd) {
        let mut r = FastFixedIn::<f32>::new(1.0, 2.0, PolynomialDegree::Nearest, 2, 2).unwrap();
        rt_section!(B, nd, r, f32, 2, 14);
        forget(r);
    }

    #[kani::unwind(40)]
    #[kani::stub(std::alloc::alloc, crate::rt::k_alloc)]
    #[kani::stub(std::alloc::alloc_zeroed, crate::rt::k_alloc_zeroed)]
    #[kani::stub(std::alloc::dealloc, crate::rt::k_dealloc)]
    #[kani::stub(std::alloc::realloc, crate::rt::k_realloc)]
    #[kani::stub(alloc::alloc::realloc_nonnull, crate::rt::k_realloc_nn)]
    #[kani::stub(alloc::alloc::dealloc_nonnull, crate::rt::k_dealloc_nn)]
    fn c09_sfo_a(nd) {
        let mut r = SincFixedOut::<f64>::new_with_interpolator(1.0, 2.0, SincInterpolationType::Linear,
            probe::boxed64(2, 2), 3, 2).unwrap();
        rt_section!(A, nd, r, f64, 10, 3);
        forget(r);
    }

    #[kani::unwind(8)]
    #[kani::stub(std::alloc::alloc, crate::rt::k_alloc)]
    #[kani::stub(std::alloc::alloc_zeroed, crate::rt::k_alloc_zeroed)]
    #[kani::stub(std::alloc::dealloc, crate::rt::k_dealloc)]
    #[kani::stub(std::alloc::realloc, crate::rt::k_realloc)]
    #[kani::stub(alloc::alloc::realloc_nonnull, crate::rt::k_realloc_nn)]
    #[kani::stub(alloc::alloc::dealloc_nonnull, crate::rt::k_dealloc_nn)]
    fn c09_sfo_b(nd) {
        let mut r = SincFixedOut::<f64>::new_with_interpolator(1.0, 2.0, SincInterpolationType::Linear,
            probe::boxed64(2, 2), 2, 2).unwrap();
        rt_section!(B, nd, r, f64, 8, 2);
        forget(r);
    }

    #[kani::unwind(40)]
    #[kani::stub(std::alloc::alloc, crate::rt::k_alloc)]
    #[kani::stub(std::alloc::alloc_zeroed, crate::rt::k_alloc_zeroed)]
    #[kani::stub(std::alloc::dealloc, crate::rt::k_dealloc)]
    #[kani::stub(std::alloc::realloc, crate::rt::k_realloc)]
    #[kani::stub(alloc::alloc::realloc_nonnull, crate::rt::k_realloc_nn)]
    #[kani::stub(alloc::alloc::dealloc_nonnull, crate::rt::k_dealloc_nn)]
    fn c09_sfi_a(nd) {
        let mut r = SincFixedIn::<f32>::new_with_interpolator(1.0, 2.0, SincInterpolationType::Cubic,
            probe::boxed32(2, 2), 3, 2).unwrap();
        rt_section!(A, nd, r, f32, 3, 16);
        forget(r);
    }

    #[kani::unwind(8)]
    #[kani::stub(std::alloc::alloc, crate::rt::k_alloc)]
    #[kani::stub(std::alloc::alloc_zeroed, crate::rt::k_alloc_zeroed)]
    #[kani::stub(std::alloc::dealloc, crate::rt::k_dealloc)]
    #[kani::stub(std::alloc::realloc, crate::rt::k_realloc)]
    #[kani::stub(alloc::alloc::realloc_nonnull, crate::rt::k_realloc_nn)]
    #[kani::stub(alloc::alloc::dealloc_nonnull, crate::rt::k_dealloc_nn)]
    fn c09_sfi_b(nd) {
        let mut r = SincFixedIn::<f32>::new_with_interpolator(1.0, 2.0, SincInterpolationType::Cubic,
            probe::boxed32(2, 2), 2, 2).unwrap();
        rt_section!(B, nd, r, f32, 2, 14);
        forget(r);
    }

    // real scalar kernel and table (Kani's nondeterministic sin/cos): the
    // allocation behaviour of the real interpolator object
    #[kani::unwind(40)]
    #[kani::stub(std::alloc::alloc, crate::rt::k_alloc)]
    #[kani::stub(std::alloc::alloc_zeroed, crate::rt::k_alloc_zeroed)]
    #[kani::stub(std::alloc::dealloc, crate::rt::k_dealloc)]
    #[kani::stub(std::alloc::realloc, crate::rt::k_realloc)]
    #[kani::stub(alloc::alloc::realloc_nonnull, crate::rt::k_realloc_nn)]
    #[kani::stub(alloc::alloc::dealloc_nonnull, crate::rt::k_dealloc_nn)]
    #[kani::stub(rubato::CpuFeature::is_detected, crate::stubs::not_detected)]
    fn c09_sfo_real_kernel(nd) {
        let p = SincInterpolationParameters { sinc_len: 8, f_cutoff: 0.9, oversampling_factor: 2,
            interpolation: SincInterpolationType::Linear, window: WindowFunction::Hann };
        let mut r = SincFixedOut::<f64>::new(1.0, 1.0, p, 2, 2).unwrap();
        let x0 = [0.25f64; 8];
        let x1 = [0.5f64; 8];
        let mut y0 = [0.0f64; 2];
        let mut y1 = [0.0f64; 2];
        rt::begin();
        let r1 = r.process_into_buffer(&[&x0[..], &x1[..]], &mut [&mut y0[..], &mut y1[..]], None);
        let r2 = r.process_into_buffer(&[&x0[..], &x1[..]], &mut [&mut y0[..], &mut y1[..]], Some(&[false, true]));
        rt::end();
        cover!(r1.is_ok() && r2.is_ok(), "calls succeeded");
        cover!(rt::allocs_outside() > 0, "constructor allocations are seen by the monitor");
        forget((r1, r2));
        forget(r);
    }

    #[kani::unwind(40)]
    #[kani::stub(std::alloc::alloc, crate::rt::k_alloc)]
    #[kani::stub(std::alloc::alloc_zeroed, crate::rt::k_alloc_zeroed)]
    #[kani::stub(std::alloc::dealloc, crate::rt::k_dealloc)]
    #[kani::stub(std::alloc::realloc, crate::rt::k_realloc)]
    #[kani::stub(alloc::alloc::realloc_nonnull, crate::rt::k_realloc_nn)]
    #[kani::stub(alloc::alloc::dealloc_nonnull, crate::rt::k_dealloc_nn)]
    #[kani::stub(realfft::RealFftPlanner::<f64>::new, crate::stubs::planner_new)]
    #[kani::stub(realfft::RealFftPlanner::<f64>::plan_fft_forward, crate::stubs::plan_fwd)]
    #[kani::stub(realfft::RealFftPlanner::<f64>::plan_fft_inverse, crate::stubs::plan_inv)]
    #[kani::stub(rubato::sinc::make_sincs, crate::stubs::make_sincs_unit)]
    fn c09_ftio_a(nd) {
        let mut r = FftFixedInOut::<f64>::new(2, 3, 2, 2).unwrap();
        rt_section!(A, nd, r, f64, 2, 3);
        forget(r);
    }

    #[kani::unwind(8)]
    #[kani::stub(std::alloc::alloc, crate::rt::k_alloc)]
    #[kani::stub(std::alloc::alloc_zeroed, crate::rt::k_alloc_zeroed)]
    #[kani::stub(std::alloc::dealloc, crate::rt::k_dealloc)]
    #[kani::stub(std::alloc::realloc, crate::rt::k_realloc)]
    #[kani::stub(alloc::alloc::realloc_nonnull, crate::rt::k_realloc_nn)]
    #[kani::stub(alloc::alloc::dealloc_nonnull, crate::rt::k_dealloc_nn)]
    #[kani::stub(realfft::RealFftPlanner::<f64>::new, crate::stubs::planner_new)]
    #[kani::stub(realfft::RealFftPlanner::<f64>::plan_fft_forward, crate::stubs::plan_fwd)]
    #[kani::stub(realfft::RealFftPlanner::<f64>::plan_fft_inverse, crate::stubs::plan_inv)]
    #[kani::stub(rubato::sinc::make_sincs, crate::stubs::make_sincs_unit)]
    fn c09_ftio_b(nd) {
        let mut r = FftFixedInOut::<f64>::new(2, 3, 2, 2).unwrap();
        rt_section!(B, nd, r, f64, 2, 3);
        forget(r);
    }

    #[kani::unwind(40)]
    #[kani::stub(std::alloc::alloc, crate::rt::k_alloc)]
    #[kani::stub(std::alloc::alloc_zeroed, crate::rt::k_alloc_zeroed)]
    #[kani::stub(std::alloc::dealloc, crate::rt::k_dealloc)]
    #[kani::stub(std::alloc::realloc, crate::rt::k_realloc)]
    #[kani::stub(alloc::alloc::realloc_nonnull, crate::rt::k_realloc_nn)]
    #[kani::stub(alloc::alloc::dealloc_nonnull, crate::rt::k_dealloc_nn)]
    #[kani::stub(realfft::RealFftPlanner::<f64>::new, crate::stubs::planner_new)]
    #[kani::stub(realfft::RealFftPlanner::<f64>::plan_fft_forward, crate::stubs::plan_fwd)]
    #[kani::stub(realfft::RealFftPlanner::<f64>::plan_fft_inverse, crate::stubs::plan_inv)]
    #[kani::stub(rubato::sinc::make_sincs, crate::stubs::make_sincs_unit)]
    fn c09_fti_a(nd) {
        let mut r = FftFixedIn::<f64>::new(2, 3, 3, 1, 2).unwrap();
        rt_section!(A, nd, r, f64, 3, 6);
        forget(r);
    }

    #[kani::unwind(8)]
    #[kani::stub(std::alloc::alloc, crate::rt::k_alloc)]
    #[kani::stub(std::alloc::alloc_zeroed, crate::rt::k_alloc_zeroed)]
    #[kani::stub(std::alloc::dealloc, crate::rt::k_dealloc)]
    #[kani::stub(std::alloc::realloc, crate::rt::k_realloc)]
    #[kani::stub(alloc::alloc::realloc_nonnull, crate::rt::k_realloc_nn)]
    #[kani::stub(alloc::alloc::dealloc_nonnull, crate::rt::k_dealloc_nn)]
    #[kani::stub(realfft::RealFftPlanner::<f64>::new, crate::stubs::planner_new)]
    #[kani::stub(realfft::RealFftPlanner::<f64>::plan_fft_forward, crate::stubs::plan_fwd)]
    #[kani::stub(realfft::RealFftPlanner::<f64>::plan_fft_inverse, crate::stubs::plan_inv)]
    #[kani::stub(rubato::sinc::make_sincs, crate::stubs::make_sincs_unit)]
    fn c09_fti_b(nd) {
        let mut r = FftFixedIn::<f64>::new(2, 3, 3, 1, 2).unwrap();
        rt_section!(B, nd, r, f64, 3, 6);
        forget(r);
    }

    #[kani::unwind(40)]
    #[kani::stub(std::alloc::alloc, crate::rt::k_alloc)]
    #[kani::stub(std::alloc::alloc_zeroed, crate::rt::k_alloc_zeroed)]
    #[kani::stub(std::alloc::dealloc, crate::rt::k_dealloc)]
    #[kani::stub(std::alloc::realloc, crate::rt::k_realloc)]
    #[kani::stub(alloc::alloc::realloc_nonnull, crate::rt::k_realloc_nn)]
    #[kani::stub(alloc::alloc::dealloc_nonnull, crate::rt::k_dealloc_nn)]
    #[kani::stub(realfft::RealFftPlanner::<f32>::new, crate::stubs::planner_new)]
    #[kani::stub(realfft::RealFftPlanner::<f32>::plan_fft_forward, crate::stubs::plan_fwd)]
    #[kani::stub(realfft::RealFftPlanner::<f32>::plan_fft_inverse, crate::stubs::plan_inv)]
    #[kani::stub(rubato::sinc::make_sincs, crate::stubs::make_sincs_unit)]
    fn c09_fto_a(nd) {
        let mut r = FftFixedOut::<f32>::new(2, 3, 4, 1, 2).unwrap();
        rt_section!(A, nd, r, f32, 4, 4);
        forget(r);
    }

    #[kani::unwind(8)]
    #[kani::stub(std::alloc::alloc, crate::rt::k_alloc)]
    #[kani::stub(std::alloc::alloc_zeroed, crate::rt::k_alloc_zeroed)]
    #[kani::stub(std::alloc::dealloc, crate::rt::k_dealloc)]
    #[kani::stub(std::alloc::realloc, crate::rt::k_realloc)]
    #[kani::stub(alloc::alloc::realloc_nonnull, crate::rt::k_realloc_nn)]
    #[kani::stub(alloc::alloc::dealloc_nonnull, crate::rt::k_dealloc_nn)]
    #[kani::stub(realfft::RealFftPlanner::<f32>::new, crate::stubs::planner_new)]
    #[kani::stub(realfft::RealFftPlanner::<f32>::plan_fft_forward, crate::stubs::plan_fwd)]
    #[kani::stub(realfft::RealFftPlanner::<f32>::plan_fft_inverse, crate::stubs::plan_inv)]
    #[kani::stub(rubato::sinc::make_sincs, crate::stubs::make_sincs_unit)]
    fn c09_fto_b(nd) {
        let mut r = FftFixedOut::<f32>::new(2, 3, 4, 1, 2).unwrap();
        rt_section!(B, nd, r, f32, 4, 4);
        forget(r);
    }

    // vacuity witness: process() allocates by design, the monitor must fire
    #[kani::unwind(40)]
    #[kani::stub(std::alloc::alloc, crate::rt::k_alloc)]
    #[kani::stub(std::alloc::alloc_zeroed, crate::rt::k_alloc_zeroed)]
    #[kani::stub(std::alloc::dealloc, crate::rt::k_dealloc)]
    #[kani::stub(std::alloc::realloc, crate::rt::k_realloc)]
    #[kani::stub(alloc::alloc::realloc_nonnull, crate::rt::k_realloc_nn)]
    #[kani::stub(alloc::alloc::dealloc_nonnull, crate::rt::k_dealloc_nn)]
    fn c09_dealloc_witness(nd) {
        // vacuity witness (must FAIL): dropping a Vec inside the section is seen as a deallocation
        let v: Vec<u64> = Vec::with_capacity(2);
        rt::begin();
        drop(v);
        rt::end();
        check!(true, "C09.harness_sanity[base]");
    }
    #[kani::unwind(12)]
    #[kani::stub(std::alloc::alloc, crate::rt::k_alloc)]
    #[kani::stub(std::alloc::alloc_zeroed, crate::rt::k_alloc_zeroed)]
    #[kani::stub(std::alloc::dealloc, crate::rt::k_dealloc)]
    #[kani::stub(std::alloc::realloc, crate::rt::k_realloc)]
    #[kani::stub(alloc::alloc::realloc_nonnull, crate::rt::k_realloc_nn)]
    #[kani::stub(alloc::alloc::dealloc_nonnull, crate::rt::k_dealloc_nn)]
    fn c09_realloc_witness(nd) {
        // vacuity witness (must FAIL): growing a Vec inside the section is seen as a reallocation
        let mut v: Vec<u64> = Vec::with_capacity(2);
        v.push(1);
        rt::begin();
        v.resize(9, 0);
        rt::end();
        check!(v.len() == 9, "C09.harness_sanity[base]");
        forget(v);
    }
    #[kani::unwind(12)]
    #[kani::stub(std::alloc::alloc, crate::rt::k_alloc)]
    #[kani::stub(std::alloc::alloc_zeroed, crate::rt::k_alloc_zeroed)]
    #[kani::stub(std::alloc::dealloc, crate::rt::k_dealloc)]
    #[kani::stub(std::alloc::realloc, crate::rt::k_realloc)]
    #[kani::stub(alloc::alloc::realloc_nonnull, crate::rt::k_realloc_nn)]
    #[kani::stub(alloc::alloc::dealloc_nonnull, crate::rt::k_dealloc_nn)]
    fn c09_witness(nd) {
        let mut r = FastFixedOut::<f64>::new(1.0, 2.0, PolynomialDegree::Linear, 2, 1).unwrap();
        let x0 = [0.25f64; 12];
        rt::begin();
        let v = r.process(&[&x0[..]], None);
        rt::end();
        check!(v.is_err(), "WITNESS.c09_ok");
        forget(v);
        forget(r);
    }
}
