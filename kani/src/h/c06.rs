//! C06 / C07 / C14 / C08(b) — index-signal observation of the evaluation
//! instants. Input is the global stream position x[n] = BASE + n; with
//! `PolynomialDegree::Linear` (f64) resp. Probe + `SincInterpolationType::Linear`
//! every output value IS the instant (in input frames) at which it was
//! evaluated. All assertions apply to frames whose read window lies in line
//! data (concrete warm-up calls fill the pre-roll first).
use crate::probe::{self, BASE};
use crate::util::*;
use crate::{check, cover, harnesses, unroll32};
use rubato::{
    FastFixedIn, FastFixedOut, PolynomialDegree, Resampler, SincFixedIn, SincFixedOut,
    SincInterpolationType,
};

/// tolerance on instants: values near BASE+n carry ~11 integer bits
pub const EPS: f64 = 1.0 / 68719476736.0; // 2^-36

pub struct Stream {
    /// frames supplied so far
    pub supplied: usize,
    /// frames produced so far
    pub produced: usize,
    /// last observed instant (global input coordinates), valid if `have_last`
    pub last: f64,
    pub have_last: bool,
}

/// One call on a single-channel f64 resampler with the index signal; returns
/// (ok, n_in, n_out) and leaves the instants (out - BASE) in `tau[..n_out]`.
pub fn call_line<R: Resampler<f64>, N: crate::nd::Nondet, const MI: usize, const MO: usize>(
    nd: &mut N,
    r: &mut R,
    st: &mut Stream,
    tau: &mut [f64; MO],
) -> (bool, usize, usize) {
    let n = r.input_frames_next();
    crate::fit!(nd, n <= MI, "C04.demand_fits_scenario_bound[base]");
    let mut x = [0.0f64; MI];
    crate::drive::fill_line(&mut x[..], st.supplied);
    let mut out = [SENT; MO];
    let res = r.process_into_buffer(&[&x[..n]], &mut [&mut out[..]], None);
    match res {
        Ok((ni, no)) => {
            unroll32!(i, MO, { tau[i] = out[i] - (BASE as f64); });
            st.supplied += ni;
            (true, ni, no)
        }
        Err(_) => (false, 0, 0),
    }
}

/// Assertions on the instants of one call after a ratio change r0 -> r1.
/// `$n`: frames produced; `$reach`: how many frames beyond floor(tau) the
/// kernel reads (Linear: 1).
macro_rules! warp_checks {
    ($st:ident, $tau:ident, $n:expr, $MO:expr, $t0:expr, $t1:expr, $ramp:expr, $reach:expr, $region:literal) => {{
        warp_checks!($st, $tau, $n, $MO, $t0, $t1, $ramp, $reach, $region, false, "unused_region")
    }};
    ($st:ident, $tau:ident, $n:expr, $MO:expr, $t0:expr, $t1:expr, $ramp:expr, $reach:expr, $region:literal, $inreg:expr, $region2:literal) => {{
        let lo = (if $t0 < $t1 { $t0 } else { $t1 }) - EPS;
        let hi = (if $t0 < $t1 { $t1 } else { $t0 }) + EPS;
        let mut prev = $st.last;
        let mut have = $st.have_last;
        let mut prev_d = $t0;
        let mut fwd = true;
        let mut bounds = true;
        let mut step = true;
        let mut mono = true;
        let mut supplied = true;
        unroll32!(j, $MO, {
            if j < $n {
                let t = $tau[j];
                if have {
                    let d = t - prev;
                    if !(d > 0.0) { fwd = false; }
                    if !(d >= lo && d <= hi) { bounds = false; }
                    if !$ramp && !(d >= $t1 - EPS && d <= $t1 + EPS) { step = false; }
                    if $ramp {
                        if $t1 >= $t0 { if !(d >= prev_d - EPS) { mono = false; } } else { if !(d <= prev_d + EPS) { mono = false; } }
                    }
                    prev_d = d;
                }
                // every frame read must have been supplied
                if !(t + ($reach as f64) < ($st.supplied as f64) + EPS) { supplied = false; }
                prev = t;
                have = true;
            }
        });
        let inreg: bool = $inreg;
        check!(fwd || inreg, concat!("C06.forward[", $region, "]"));
        check!(bounds || inreg, concat!("C06.spacing_bounds[", $region, "]"));
        check!(step || inreg, concat!("C06.step_immediate[", $region, "]"));
        check!(mono || inreg, concat!("C06.ramp_monotone[", $region, "]"));
        check!(supplied || inreg, concat!("C06.supplied[", $region, "]"));
        check!(fwd || !inreg, concat!("C06.forward[", $region2, "]"));
        check!(bounds || !inreg, concat!("C06.spacing_bounds[", $region2, "]"));
        check!(step || !inreg, concat!("C06.step_immediate[", $region2, "]"));
        check!(mono || !inreg, concat!("C06.ramp_monotone[", $region2, "]"));
        check!(supplied || !inreg, concat!("C06.supplied[", $region2, "]"));
        $st.last = prev;
        $st.have_last = have;
        $st.produced += $n;
    }};
}

/// constant-ratio checks for one call: uniform spacing 1/r across the chunk
/// boundary (C07.no_drift_boundary), lag bound (C07.lag), delay (C14)
macro_rules! steady_checks {
    ($r:ident, $st:ident, $tau:ident, $n:expr, $MO:expr, $ratio:expr, $t:expr, $len:expr, $region:literal) => {{
        let mut prev = $st.last;
        let mut have = $st.have_last;
        let mut uniform = true;
        let mut delay_ok = true;
        let delay = $r.output_delay() as f64;
        let tolj = (if $ratio > 1.0 { $ratio } else { 1.0 }) + 1.0;
        unroll32!(j, $MO, {
            // frames evaluated before the start of the stream read the zero pre-roll: not observable
            if j < $n && $tau[j] >= 0.0 {
                let t = $tau[j];
                if have {
                    let d = t - prev;
                    if !(d >= $t - EPS && d <= $t + EPS) { uniform = false; }
                }
                let jglob = ($st.produced + j) as f64;
                let e = jglob - (t * $ratio + delay);
                if !(e <= tolj && e >= -tolj) { delay_ok = false; }
                prev = t;
                have = true;
            }
        });
        check!(uniform, concat!("C07.uniform_across_boundary[", $region, "]"));
        check!(delay_ok, concat!("C14.delay[", $region, "]"));
        if have {
            let lag = ($st.supplied as f64) - prev;
            check!(lag >= -EPS && lag <= ($len as f64) + $t + 3.0, concat!("C07.lag[", $region, "]"));
        }
        $st.last = prev;
        $st.have_last = have;
        $st.produced += $n;
    }};
}


/// FastFixedIn<f64>, chunk 8, constant ratio, 3 calls on the index signal.
macro_rules! ffi_line {
    ($nd:ident, $deg:expr, $ratio:expr, $MO:expr) => {{
        let mut r = FastFixedIn::<f64>::new($ratio, 1.0, $deg, 8, 1).unwrap();
        let t: f64 = 1.0 / $ratio;
        let mut st = new_stream!();
        let mut tau = [0.0f64; $MO];
        let mut okall = true;
        let mut seen = 0usize;
        let mut c = 0;
        while c < 3 {
            let (ok, _, n) = call_line::<_, _, 8, $MO>($nd, &mut r, &mut st, &mut tau);
            check!(ok, "C03.ok[base]");
            unroll32!(j, $MO, {
                if j < n {
                    let want = -4.0 + ((st.produced + j + 1) as f64) * t;
                    // the widest window (Septic) reaches 3 frames back: inside the stream from 3 on
                    if want >= 3.0 {
                        let d = tau[j] - want;
                        if !(d <= 1.0e-7 && d >= -1.0e-7) { okall = false; }
                        seen += 1;
                    }
                }
            });
            st.produced += n;
            c += 1;
        }
        check!(okall, "C08.uniform_instants_from_start[base]");
        check!(seen >= 6, "C08.harness_observed_enough_frames[base]");
        forget(r);
    }};
}

macro_rules! new_stream {
    () => {
        Stream { supplied: 0, produced: 0, last: 0.0, have_last: false }
    };
}

harnesses! {
    // ------------------------------------------------------------- FastFixedOut, ratio change
    #[kani::unwind(8)]
    fn c06_ffo_change(nd) {
        let mut r = FastFixedOut::<f64>::new(1.0, 2.0, PolynomialDegree::Linear, 3, 1).unwrap();
        let mut st = new_stream!();
        let mut tau = [0.0f64; 3];
        // warm-up at the original ratio: fills the pre-roll with the line
        let (ok, _, n) = call_line::<_, _, 14, 3>(nd, &mut r, &mut st, &mut tau);
        check!(ok, "C03.ok[base]");
        let (ok, _, n) = call_line::<_, _, 14, 3>(nd, &mut r, &mut st, &mut tau);
        check!(ok && n == 3, "C03.ok[base]");
        st.last = tau[2];
        st.have_last = true;
        st.produced = 6;
        let newr = nd.f64();
        let ramp = nd.bool();
        nd.assume(r.set_resample_ratio(newr, ramp).is_ok());
        let t1 = 1.0 / newr;
        let (ok, _, n) = call_line::<_, _, 14, 3>(nd, &mut r, &mut st, &mut tau);
        check!(ok, "C03.ok[base]");
        let pending = ramp && newr != 1.0;
        warp_checks!(st, tau, n, 3, 1.0, t1, ramp, 1, "base", pending, "ramp_pending_fast");
        cover!(ok && ramp && newr < 0.6, "ramped slow-down explored");
        cover!(ok && !ramp && newr > 1.9, "stepped speed-up explored");
        forget(r);
    }

    // quick variants: ratio on the k/32 grid
    #[kani::unwind(8)]
    fn c06_ffo_change_grid(nd) {
        let mut r = FastFixedOut::<f64>::new(1.0, 2.0, PolynomialDegree::Linear, 3, 1).unwrap();
        let mut st = new_stream!();
        let mut tau = [0.0f64; 3];
        // two warm-up calls: after the second one the whole pre-roll holds line data
        let (ok, _, n) = call_line::<_, _, 14, 3>(nd, &mut r, &mut st, &mut tau);
        check!(ok && n == 3, "C03.ok[base]");
        let (ok, _, n) = call_line::<_, _, 14, 3>(nd, &mut r, &mut st, &mut tau);
        check!(ok && n == 3, "C03.ok[base]");
        st.last = tau[2];
        st.have_last = true;
        st.produced = 6;
        let k = nd.u8();
        let newr = (k as f64) / 32.0;
        let ramp = nd.bool();
        nd.assume(r.set_resample_ratio(newr, ramp).is_ok());
        let t1 = 1.0 / newr;
        let (ok, _, n) = call_line::<_, _, 14, 3>(nd, &mut r, &mut st, &mut tau);
        check!(ok, "C03.ok[base]");
        let pending = ramp && newr != 1.0;
        warp_checks!(st, tau, n, 3, 1.0, t1, ramp, 1, "base", pending, "ramp_pending_fast");
        cover!(ok && ramp && newr < 0.6, "ramped slow-down explored");
        cover!(ok && !ramp && newr > 1.9, "stepped speed-up explored");
        forget(r);
    }
    #[kani::unwind(8)]
    fn c06_sfo_change_grid(nd) {
        probe::reset_flags();
        let mut r = SincFixedOut::<f64>::new_with_interpolator(1.0, 2.0, SincInterpolationType::Linear, probe::boxed64(8, 2), 3, 1).unwrap();
        let mut st = new_stream!();
        let mut tau = [0.0f64; 3];
        let (ok, _, n) = call_line::<_, _, 14, 3>(nd, &mut r, &mut st, &mut tau);
        check!(ok && n == 3, "C03.ok[base]");
        let (ok, _, n) = call_line::<_, _, 14, 3>(nd, &mut r, &mut st, &mut tau);
        check!(ok && n == 3, "C03.ok[base]");
        st.last = tau[2];
        st.have_last = true;
        st.produced = 6;
        let k = nd.u8();
        let newr = (k as f64) / 32.0;
        let ramp = nd.bool();
        nd.assume(r.set_resample_ratio(newr, ramp).is_ok());
        let t1 = 1.0 / newr;
        probe::set_strict(true);
        let (ok, _, n) = call_line::<_, _, 14, 3>(nd, &mut r, &mut st, &mut tau);
        check!(ok, "C03.ok[base]");
        let pending = ramp && newr < 1.0;
        // quick tier: the recorded region (F6) has its own concrete witness harness below
        nd.assume(!pending);
        check!(!probe::offline() || pending, "C06.window_on_supplied_data[base]");
        check!(!probe::offline() || !pending, "C06.window_on_supplied_data[ramp_down_sinc]");
        check!(!probe::bad_window() && !probe::bad_subindex(), "C03.kernel_window[base]");
        warp_checks!(st, tau, n, 3, 1.0, t1, ramp, 4, "base", pending, "ramp_down_sinc");
        cover!(!pending, "base region explored");
        cover!(ok && ramp, "ramped change explored");
        forget(r);
    }
    #[kani::unwind(8)]
    fn c06_sfo_change_grid_all(nd) {
        probe::reset_flags();
        let mut r = SincFixedOut::<f64>::new_with_interpolator(1.0, 2.0, SincInterpolationType::Linear, probe::boxed64(8, 2), 3, 1).unwrap();
        let mut st = new_stream!();
        let mut tau = [0.0f64; 3];
        let (ok, _, n) = call_line::<_, _, 14, 3>(nd, &mut r, &mut st, &mut tau);
        check!(ok && n == 3, "C03.ok[base]");
        let (ok, _, n) = call_line::<_, _, 14, 3>(nd, &mut r, &mut st, &mut tau);
        check!(ok && n == 3, "C03.ok[base]");
        st.last = tau[2];
        st.have_last = true;
        st.produced = 6;
        let k = nd.u8();
        let newr = (k as f64) / 32.0;
        let ramp = nd.bool();
        nd.assume(r.set_resample_ratio(newr, ramp).is_ok());
        let t1 = 1.0 / newr;
        probe::set_strict(true);
        let (ok, _, n) = call_line::<_, _, 14, 3>(nd, &mut r, &mut st, &mut tau);
        check!(ok, "C03.ok[base]");
        let pending = ramp && newr < 1.0;
        check!(!probe::offline() || pending, "C06.window_on_supplied_data[base]");
        check!(!probe::offline() || !pending, "C06.window_on_supplied_data[ramp_down_sinc]");
        check!(!probe::bad_window() && !probe::bad_subindex(), "C03.kernel_window[base]");
        warp_checks!(st, tau, n, 3, 1.0, t1, ramp, 4, "base", pending, "ramp_down_sinc");
        cover!(pending, "ramp_pending region explored");
        cover!(!pending, "base region explored");
        cover!(ok && ramp, "ramped change explored");
        forget(r);
    }
    // recorded finding F6, concrete witness: ramp 1.0 -> 0.5 on SincFixedOut chunk 3
    #[kani::unwind(8)]
    fn c06_sfo_ramp_down_kf(nd) {
        probe::reset_flags();
        let mut r = SincFixedOut::<f64>::new_with_interpolator(1.0, 2.0, SincInterpolationType::Linear, probe::boxed64(8, 2), 3, 1).unwrap();
        let mut st = new_stream!();
        let mut tau = [0.0f64; 3];
        let (ok, _, n) = call_line::<_, _, 14, 3>(nd, &mut r, &mut st, &mut tau);
        check!(ok && n == 3, "C03.ok[base]");
        let (ok, _, n) = call_line::<_, _, 14, 3>(nd, &mut r, &mut st, &mut tau);
        check!(ok && n == 3, "C03.ok[base]");
        st.last = tau[2];
        st.have_last = true;
        st.produced = 6;
        check!(r.set_resample_ratio(0.5, true).is_ok(), "C03.ok[base]");
        probe::set_strict(true);
        let (ok, _, n) = call_line::<_, _, 14, 3>(nd, &mut r, &mut st, &mut tau);
        check!(ok, "C03.ok[base]");
        check!(!probe::offline(), "C06.window_on_supplied_data[ramp_down_sinc]");
        check!(!probe::bad_window() && !probe::bad_subindex(), "C03.kernel_window[base]");
        warp_checks!(st, tau, n, 3, 1.0, 2.0, true, 4, "base", true, "ramp_down_sinc");
        forget(r);
    }


    // ------------------------------------------------------------- thorough: a larger fixed-output chunk.
    // The input need during a ramp matters only when chunk * |1/old - 1/new| exceeds the margin.
    #[kani::unwind(24)]
    fn c06_ffo_change_big(nd) {
        let mut r = FastFixedOut::<f64>::new(1.0, 2.0, PolynomialDegree::Linear, 20, 1).unwrap();
        let mut st = new_stream!();
        let mut tau = [0.0f64; 20];
        let (ok, _, n) = call_line::<_, _, 48, 20>(nd, &mut r, &mut st, &mut tau);
        check!(ok && n == 20, "C03.ok[base]");
        st.last = tau[19];
        st.have_last = true;
        st.produced = 20;
        let k = nd.u8();
        let newr = (k as f64) / 32.0;
        let ramp = nd.bool();
        nd.assume(r.set_resample_ratio(newr, ramp).is_ok());
        let t1 = 1.0 / newr;
        let (ok, _, n) = call_line::<_, _, 48, 20>(nd, &mut r, &mut st, &mut tau);
        check!(ok, "C03.ok[base]");
        let pending = ramp && newr != 1.0;
        warp_checks!(st, tau, n, 20, 1.0, t1, ramp, 1, "base", pending, "ramp_pending_fast_big");
        cover!(pending && newr < 0.6, "ramped slow-down explored");
        forget(r);
    }

    // ------------------------------------------------------------- SincFixedOut + Probe, ratio change
    #[kani::unwind(8)]
    fn c06_sfo_change(nd) {
        probe::reset_flags();
        let mut r = SincFixedOut::<f64>::new_with_interpolator(1.0, 2.0, SincInterpolationType::Linear, probe::boxed64(8, 2), 3, 1).unwrap();
        let mut st = new_stream!();
        let mut tau = [0.0f64; 3];
        let (ok, _, n) = call_line::<_, _, 14, 3>(nd, &mut r, &mut st, &mut tau);
        check!(ok, "C03.ok[base]");
        let (ok, _, n) = call_line::<_, _, 14, 3>(nd, &mut r, &mut st, &mut tau);
        check!(ok && n == 3, "C03.ok[base]");
        st.last = tau[2];
        st.have_last = true;
        st.produced = 6;
        let newr = nd.f64();
        let ramp = nd.bool();
        nd.assume(r.set_resample_ratio(newr, ramp).is_ok());
        let t1 = 1.0 / newr;
        probe::set_strict(true);
        let (ok, _, n) = call_line::<_, _, 14, 3>(nd, &mut r, &mut st, &mut tau);
        check!(ok, "C03.ok[base]");
        // recorded finding F6: during a ramp the fixed-output types size their input from the mean
        // ratio while the position advances by the mean reciprocal (region `ramp_pending`)
        let pending = ramp && newr < 1.0;
        check!(!probe::offline() || pending, "C06.window_on_supplied_data[base]");
        check!(!probe::offline() || !pending, "C06.window_on_supplied_data[ramp_down_sinc]");
        check!(!probe::bad_window() && !probe::bad_subindex(), "C03.kernel_window[base]");
        // the probe's value stands for the window centre: the window reaches len/2 beyond it
        warp_checks!(st, tau, n, 3, 1.0, t1, ramp, 4, "base", pending, "ramp_down_sinc");
        cover!(pending, "ramp_pending region explored");
        cover!(!pending, "base region explored");
        cover!(ok && ramp, "ramped change explored");
        forget(r);
    }


    // ------------------------------------------------------------- FastFixedIn / SincFixedIn, ratio change
    // (variable number of frames per call; chunk 8 so that the loop produces frames every call)
    #[kani::unwind(19)]
    fn c06_ffi_change_grid(nd) {
        let mut r = FastFixedIn::<f64>::new(1.0, 1.5, PolynomialDegree::Linear, 8, 1).unwrap();
        let mut st = new_stream!();
        let mut tau = [0.0f64; 22];
        let (ok, _, n) = call_line::<_, _, 8, 22>(nd, &mut r, &mut st, &mut tau);
        check!(ok, "C03.ok[base]");
        st.produced += n;
        let (ok, _, n) = call_line::<_, _, 8, 22>(nd, &mut r, &mut st, &mut tau);
        check!(ok && n >= 2, "C03.ok[base]");
        st.last = tau[n - 1];
        st.have_last = true;
        st.produced += n;
        let k = nd.u8();
        let newr = (k as f64) / 32.0;
        let ramp = nd.bool();
        nd.assume(r.set_resample_ratio(newr, ramp).is_ok());
        let t1 = 1.0 / newr;
        let (ok, _, n) = call_line::<_, _, 8, 22>(nd, &mut r, &mut st, &mut tau);
        check!(ok, "C03.ok[base]");
        // FixedIn ramps are planned for an estimated frame count and clamped at the target
        // (after the fix of F10): spacing stays between the two reciprocals and monotone
        warp_checks!(st, tau, n, 22, 1.0, t1, ramp, 1, "base");
        cover!(ok && ramp && n > 3, "ramped call with several frames");
        cover!(ok && !ramp && newr > 1.4, "stepped speed-up explored");
        forget(r);
    }
    #[kani::unwind(19)]
    fn c06_sfi_change_grid(nd) {
        probe::reset_flags();
        let mut r = SincFixedIn::<f64>::new_with_interpolator(1.0, 1.5, SincInterpolationType::Linear, probe::boxed64(8, 2), 8, 1).unwrap();
        let mut st = new_stream!();
        let mut tau = [0.0f64; 22];
        let (ok, _, n) = call_line::<_, _, 8, 22>(nd, &mut r, &mut st, &mut tau);
        check!(ok, "C03.ok[base]");
        st.produced += n;
        let (ok, _, n) = call_line::<_, _, 8, 22>(nd, &mut r, &mut st, &mut tau);
        check!(ok && n >= 2, "C03.ok[base]");
        st.last = tau[n - 1];
        st.have_last = true;
        st.produced += n;
        let k = nd.u8();
        let newr = (k as f64) / 32.0;
        let ramp = nd.bool();
        nd.assume(r.set_resample_ratio(newr, ramp).is_ok());
        let t1 = 1.0 / newr;
        probe::set_strict(true);
        let (ok, _, n) = call_line::<_, _, 8, 22>(nd, &mut r, &mut st, &mut tau);
        check!(ok, "C03.ok[base]");
        check!(!probe::offline(), "C06.window_on_supplied_data[base]");
        check!(!probe::bad_window() && !probe::bad_subindex(), "C03.kernel_window[base]");
        warp_checks!(st, tau, n, 22, 1.0, t1, ramp, 4, "base");
        cover!(ok && ramp && n > 3, "ramped call with several frames");
        forget(r);
    }


    // ------------------------------------------------------------- the chunk AFTER a ramp: spacing
    // equals 1/new from its first frame on and its windows lie on supplied data
    #[kani::unwind(8)]
    fn c06_sfo_after_ramp_grid(nd) {
        probe::reset_flags();
        let mut r = SincFixedOut::<f64>::new_with_interpolator(1.0, 2.0, SincInterpolationType::Linear, probe::boxed64(8, 2), 3, 1).unwrap();
        let mut st = new_stream!();
        let mut tau = [0.0f64; 3];
        let (ok, _, n) = call_line::<_, _, 14, 3>(nd, &mut r, &mut st, &mut tau);
        check!(ok && n == 3, "C03.ok[base]");
        let (ok, _, n) = call_line::<_, _, 14, 3>(nd, &mut r, &mut st, &mut tau);
        check!(ok && n == 3, "C03.ok[base]");
        let k = nd.u8();
        let newr = (k as f64) / 32.0;
        nd.assume(r.set_resample_ratio(newr, true).is_ok());
        let t1 = 1.0 / newr;
        // the ramp chunk itself (checked by c06_sfo_change_grid)
        let (ok, _, n) = call_line::<_, _, 14, 3>(nd, &mut r, &mut st, &mut tau);
        check!(ok && n == 3, "C03.ok[base]");
        st.last = tau[2];
        st.have_last = true;
        probe::set_strict(true);
        unsafe { probe::OFFLINE = false; }
        let (ok, _, n) = call_line::<_, _, 14, 3>(nd, &mut r, &mut st, &mut tau);
        check!(ok && n == 3, "C03.ok[base]");
        // constant ratio again: every spacing (including the one across the boundary) is 1/new
        let mut done = true;
        let mut prev = st.last;
        unroll32!(j, 3, {
            let d = tau[j] - prev;
            if !(d >= t1 - EPS && d <= t1 + EPS) { done = false; }
            prev = tau[j];
        });
        check!(done, "C06.ramp_done[base]");
        check!(!probe::offline(), "C06.window_on_supplied_data_after_ramp[base]");
        check!(tau[2] + 4.0 < (st.supplied as f64) + EPS, "C06.supplied_after_ramp[base]");
        cover!(newr < 0.7, "ramp down explored");
        cover!(newr > 1.5, "ramp up explored");
        forget(r);
    }

    // ------------------------------------------------------------- slow ratios on FastFixedIn (1/r > 7):
    // frames are rare, the carried position is far back; uniform spacing across chunk boundaries
    #[kani::unwind(10)]
    fn c07_ffi_slow(nd) {
        // concrete slow ratio (1/r = 10 > 7): frames are rare and the carried position is far back
        let mut r = FastFixedIn::<f64>::new(0.1, 1.0, PolynomialDegree::Linear, 7, 1).unwrap();
        let newr = 0.1f64;
        let t = 1.0 / newr;
        let mut st = new_stream!();
        let mut tau = [0.0f64; 12];
        let mut c = 0;
        while c < 8 {
            let (ok, _, n) = call_line::<_, _, 7, 12>(nd, &mut r, &mut st, &mut tau);
            check!(ok, "C03.ok[base]");
            steady_checks!(r, st, tau, n, 12, newr, t, 8, "base");
            c += 1;
        }
        check!(st.have_last && st.produced >= 4, "C07.harness_observed_enough_frames[base]");
        forget(r);
    }

    // ------------------------------------------------------------- constant ratio: C07 / C14 / C08(b)
    #[kani::unwind(8)]
    fn c07_ffo_steady(nd) {
        // the ratio is set once (symbolic, every accepted value), then held
        let mut r = FastFixedOut::<f64>::new(1.0, 2.0, PolynomialDegree::Linear, 3, 1).unwrap();
        let newr = nd.f64();
        nd.assume(r.set_resample_ratio(newr, false).is_ok());
        let t = 1.0 / newr;
        let mut st = new_stream!();
        let mut tau = [0.0f64; 3];
        let (ok, _, n) = call_line::<_, _, 14, 3>(nd, &mut r, &mut st, &mut tau);
        check!(ok, "C03.ok[base]");
        // C08(b): documented start position: frame j is evaluated at -4 + (j+1)/ratio
        // (only frames whose window lies in supplied data, i.e. instant >= 0, are on the line)
        let mut start_ok = true;
        unroll32!(j, 3, {
            let want = -4.0 + ((j + 1) as f64) * t;
            if want >= 0.0 && j < n {
                if !(tau[j] >= want - 64.0 * EPS && tau[j] <= want + 64.0 * EPS) { start_ok = false; }
            }
        });
        check!(start_ok, "C08.uniform_instants_from_start[base]");
        st.produced += n;
        // second call: pre-roll now holds the line; all frames observable
        let (ok, _, n) = call_line::<_, _, 14, 3>(nd, &mut r, &mut st, &mut tau);
        check!(ok, "C03.ok[base]");
        let mut start_ok2 = true;
        unroll32!(j, 3, {
            let want = -4.0 + ((3 + j + 1) as f64) * t;
            if want >= 0.0 && j < n {
                if !(tau[j] >= want - 64.0 * EPS && tau[j] <= want + 64.0 * EPS) { start_ok2 = false; }
            }
        });
        check!(start_ok2, "C08.uniform_instants_from_start[base]");
        st.have_last = false;
        steady_checks!(r, st, tau, n, 3, newr, t, 8, "base");
        cover!(newr < 0.6, "slow ratio explored");
        cover!(newr > 1.9, "fast ratio explored");
        forget(r);
    }



    // ------------------------------------------------------------- C08(b): window selection of the blending
    // degrees on the fixed-input type. A line is reproduced exactly by every degree >= 1, so the
    // output IS the evaluation instant: frame j must sit at -4 + (j+1)/ratio (a window that
    // starts one frame off shifts the result by a whole frame). Concrete ratios with non-integer
    // instants; the position is negative most of the time (floor vs truncation matters).
    #[kani::unwind(20)]
    fn c08_ffi_quintic_line(nd) { ffi_line!(nd, PolynomialDegree::Quintic, 1.6, 24); }
    #[kani::unwind(20)]
    fn c08_ffi_septic_line(nd) { ffi_line!(nd, PolynomialDegree::Septic, 0.8, 18); }
    #[kani::unwind(24)]
    fn c08_ffi_cubic_line(nd) { ffi_line!(nd, PolynomialDegree::Cubic, 2.0, 28); }

    // calls that need NO new input (output chunk smaller than the ratio): the history must still be
    // shifted by the previous call's fill; Linear on the index line, instants uniformly 1/4 apart
    #[kani::unwind(8)]
    fn c08_ffo_tiny_chunk_line(nd) {
        let mut r = FastFixedOut::<f64>::new(1.0, 4.0, PolynomialDegree::Linear, 2, 1).unwrap();
        let mut st = new_stream!();
        let mut tau = [0.0f64; 2];
        let mut c = 0;
        while c < 3 {
            let (ok, _, n) = call_line::<_, _, 8, 2>(nd, &mut r, &mut st, &mut tau);
            check!(ok && n == 2, "C03.ok[base]");
            c += 1;
        }
        // six frames at ratio 1: instants -3..2
        check!(tau[1] == 2.0, "C08.uniform_instants_from_start[base]");
        let mut last = tau[1];
        check!(r.set_resample_ratio(4.0, false).is_ok(), "C12.abs_iff[base]");
        let mut okall = true;
        let mut zero_need = false;
        let mut c = 0;
        while c < 4 {
            if r.input_frames_next() == 0 { zero_need = true; }
            let (ok, _, n) = call_line::<_, _, 8, 2>(nd, &mut r, &mut st, &mut tau);
            check!(ok && n == 2, "C03.ok[base]");
            unroll32!(j, 2, {
                let d = tau[j] - (last + 0.25);
                if !(d <= EPS && d >= -EPS) { okall = false; }
                last = tau[j];
            });
            c += 1;
        }
        check!(okall, "C08.uniform_instants_tiny_chunk[base]");
        check!(zero_need, "C08.harness_observed_zero_need_call[base]");
        forget(r);
    }

    // ------------------------------------------------------------- C08(b), blending degrees (thorough):
    // a cubic through the index positions is reproduced at the uniformly spaced instants
    #[kani::unwind(8)]
    fn c08_ffo_cubic_poly(nd) {
        let mut r = FastFixedOut::<f64>::new(1.0, 2.0, PolynomialDegree::Cubic, 3, 1).unwrap();
        let k = nd.u8();
        let newr = (k as f64) / 32.0;
        nd.assume(r.set_resample_ratio(newr, false).is_ok());
        let t = 1.0 / newr;
        // P(n) = n^3/64 - n^2/8 + n - 2 on exact dyadic coefficients
        let p = |n: f64| ((n / 64.0 - 0.125) * n + 1.0) * n - 2.0;
        let mut pos = 0usize;
        let mut produced = 0usize;
        let mut okall = true;
        let mut c = 0;
        while c < 2 {
            let n = r.input_frames_next();
            crate::fit!(nd, n <= 14, "C04.demand_fits_scenario_bound[base]");
            let mut x = [0.0f64; 14];
            unroll32!(i, 14, { x[i] = p((pos + i) as f64); });
            let mut o = [SENT; 3];
            match r.process_into_buffer(&[&x[..n]], &mut [&mut o[..]], None) {
                Ok((ni, no)) => {
                    pos += ni;
                    unroll32!(j, 3, {
                        if j < no {
                            let tau = -4.0 + ((produced + j + 1) as f64) * t;
                            // window [floor(tau)-1, floor(tau)+2] must lie in the stream
                            if tau >= 1.0 {
                                let want = p(tau);
                                let d = o[j] - want;
                                if !(d <= 1.0e-9 && d >= -1.0e-9) { okall = false; }
                            }
                        }
                    });
                    produced += no;
                }
                Err(_) => { check!(false, "C03.ok[base]"); }
            }
            c += 1;
        }
        check!(okall, "C08.cubic_reproduced[base]");
        cover!(newr > 1.5, "fast ratio explored");
        forget(r);
    }

    // quick variant of the steady-state checks: ratio on the k/32 grid, one observed call
    #[kani::unwind(8)]
    fn c07_ffo_steady_grid(nd) {
        let mut r = FastFixedOut::<f64>::new(1.0, 2.0, PolynomialDegree::Linear, 4, 1).unwrap();
        let k = nd.u8();
        let newr = (k as f64) / 32.0;
        nd.assume(r.set_resample_ratio(newr, false).is_ok());
        let t = 1.0 / newr;
        let mut st = new_stream!();
        let mut tau = [0.0f64; 4];
        let (ok, _, n) = call_line::<_, _, 16, 4>(nd, &mut r, &mut st, &mut tau);
        check!(ok, "C03.ok[base]");
        st.produced += n;
        let (ok, _, n) = call_line::<_, _, 16, 4>(nd, &mut r, &mut st, &mut tau);
        check!(ok, "C03.ok[base]");
        let mut start_ok2 = true;
        unroll32!(j, 4, {
            let want = -4.0 + ((4 + j + 1) as f64) * t;
            if want >= 0.0 && j < n {
                if !(tau[j] >= want - 64.0 * EPS && tau[j] <= want + 64.0 * EPS) { start_ok2 = false; }
            }
        });
        check!(start_ok2, "C08.uniform_instants_from_start[base]");
        st.have_last = false;
        steady_checks!(r, st, tau, n, 4, newr, t, 8, "base");
        cover!(newr > 1.9 && st.have_last, "a frame inside the stream was observed at a fast ratio");
        cover!(newr < 0.6, "slow ratio explored");
        cover!(newr > 1.9, "fast ratio explored");
        forget(r);
    }

    // a ramped change immediately replaced by a stepped change to the same ratio: the step takes effect
    // from the first frame of the next chunk, exactly as for an instance that only received the step
    #[kani::unwind(16)]
    fn c06_sfo_ramp_then_step(nd) {
        probe::reset_flags();
        let mk = || SincFixedOut::<f64>::new_with_interpolator(1.0, 2.0, SincInterpolationType::Linear, probe::boxed64(2, 2), 4, 1).unwrap();
        let (mut a, mut b) = (mk(), mk());
        check!(a.set_resample_ratio(0.5, true).is_ok() && a.set_resample_ratio(0.5, false).is_ok()
            && b.set_resample_ratio(0.5, false).is_ok(), "C12.abs_iff[base]");
        check!(a.input_frames_next() == b.input_frames_next() && a.output_frames_next() == b.output_frames_next(),
            "C06.step_replaces_pending_ramp[base]");
        let n = b.input_frames_next();
        crate::fit!(nd, n <= 16 && a.input_frames_next() <= 16, "C06.demand_fits_scenario_bound[base]");
        let mut x = [0.0f64; 16];
        crate::drive::fill_line(&mut x[..], 0);
        let mut oa = [SENT; 4];
        let mut ob = [SENT; 4];
        let ra = a.process_into_buffer(&[&x[..]], &mut [&mut oa[..]], None);
        let rb = b.process_into_buffer(&[&x[..]], &mut [&mut ob[..]], None);
        check!(matches!((&ra, &rb), (Ok(p), Ok(q)) if p == q), "C06.step_replaces_pending_ramp[base]");
        let mut same = true;
        unroll32!(i, 4, { if oa[i].to_bits() != ob[i].to_bits() { same = false; } });
        check!(same, "C06.step_replaces_pending_ramp[base]");
        check!(a.input_frames_next() == b.input_frames_next(), "C06.step_replaces_pending_ramp[base]");
        forget(a); forget(b);
    }
    #[kani::unwind(16)]
    fn c06_ffo_ramp_then_step(nd) {
        let mk = || FastFixedOut::<f64>::new(1.0, 2.0, PolynomialDegree::Linear, 4, 1).unwrap();
        let (mut a, mut b) = (mk(), mk());
        check!(a.set_resample_ratio(0.5, true).is_ok() && a.set_resample_ratio(0.5, false).is_ok()
            && b.set_resample_ratio(0.5, false).is_ok(), "C12.abs_iff[base]");
        check!(a.input_frames_next() == b.input_frames_next() && a.output_frames_next() == b.output_frames_next(),
            "C06.step_replaces_pending_ramp[base]");
        let n = b.input_frames_next();
        crate::fit!(nd, n <= 16 && a.input_frames_next() <= 16, "C06.demand_fits_scenario_bound[base]");
        let mut x = [0.0f64; 16];
        crate::drive::fill_line(&mut x[..], 0);
        let mut oa = [SENT; 4];
        let mut ob = [SENT; 4];
        let ra = a.process_into_buffer(&[&x[..]], &mut [&mut oa[..]], None);
        let rb = b.process_into_buffer(&[&x[..]], &mut [&mut ob[..]], None);
        check!(matches!((&ra, &rb), (Ok(p), Ok(q)) if p == q), "C06.step_replaces_pending_ramp[base]");
        let mut same = true;
        unroll32!(i, 4, { if oa[i].to_bits() != ob[i].to_bits() { same = false; } });
        check!(same, "C06.step_replaces_pending_ramp[base]");
        check!(a.input_frames_next() == b.input_frames_next(), "C06.step_replaces_pending_ramp[base]");
        forget(a); forget(b);
    }

    // vacuity witness (must FAIL)
    #[kani::unwind(8)]
    fn c06_witness(nd) {
        let mut r = FastFixedOut::<f64>::new(1.0, 2.0, PolynomialDegree::Linear, 3, 1).unwrap();
        let mut st = new_stream!();
        let mut tau = [0.0f64; 3];
        let (ok, _, n) = call_line::<_, _, 14, 3>(nd, &mut r, &mut st, &mut tau);
        let (ok, _, n) = call_line::<_, _, 14, 3>(nd, &mut r, &mut st, &mut tau);
        check!(!(ok && tau[2] > tau[1] && tau[1] > tau[0]), "WITNESS.c06");
        forget(r);
    }
}
