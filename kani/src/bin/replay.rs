//! Native replay of a solver counterexample.
//! usage: replay <harness> <hex,hex,...>   (one hex string per kani::any() value, call order)
//!        replay --list
//! Prints `REPLAY fired=<tag,tag,...> panic=<msg|none>`; exit 0 always unless usage error.
use rvh::nd::{AssumeViolated, FileNd, FIRED};
use std::panic;

#[cfg(not(kani))]
#[global_allocator]
static GLOBAL: rvh::rt::native::Counting = rvh::rt::native::Counting;

fn unhex(s: &str) -> Vec<u8> {
    (0..s.len() / 2)
        .map(|i| u8::from_str_radix(&s[2 * i..2 * i + 2], 16).unwrap())
        .collect()
}

fn main() {
    let args: Vec<String> = std::env::args().collect();
    if args.len() >= 2 && args[1] == "--list" {
        for n in rvh::all_names() {
            println!("{}", n);
        }
        return;
    }
    #[cfg(not(kani))]
    if args.len() >= 3 && args[1] == "--m-c08" {
        let bad = rvh::mreplay::m_c08(&args[2]);
        println!("{}", if bad { "MISMATCH" } else { "OK" });
        return;
    }
    #[cfg(not(kani))]
    if args.len() >= 6 && args[1] == "--m-c12" {
        let f = |s: &String| f64::from_bits(u64::from_str_radix(s.trim_start_matches("0x"), 16).unwrap());
        let bad = rvh::mreplay::m_c12(&args[2], f(&args[3]), f(&args[4]), f(&args[5]));
        println!("{}", if bad { "MISMATCH" } else { "OK" });
        return;
    }
    #[cfg(not(kani))]
    if args.len() >= 4 && args[1] == "--m-c14" {
        let bad = rvh::mreplay::m_c14(&args[2], args[3].parse().unwrap());
        println!("{}", if bad { "MISMATCH" } else { "OK" });
        return;
    }
    #[cfg(not(kani))]
    if args.len() >= 8 && args[1] == "--m-c15" {
        let p: Vec<usize> = args[3..8].iter().map(|x| x.parse().unwrap()).collect();
        let bad = rvh::mreplay::m_c15(p[0], p[1], p[2], p[3], p[4]);
        println!("{}", if bad { "MISMATCH" } else { "OK" });
        return;
    }
    if args.len() < 2 {
        eprintln!("usage: replay <harness> [hex,hex,...]");
        std::process::exit(64);
    }
    let f = match rvh::lookup(&args[1]) {
        Some(f) => f,
        None => {
            eprintln!("unknown harness {}", args[1]);
            std::process::exit(64);
        }
    };
    let vals: Vec<Vec<u8>> = if args.len() > 2 && !args[2].is_empty() {
        args[2].split(',').map(unhex).collect()
    } else {
        vec![]
    };
    let mut nd = FileNd::new(vals);
    let res = panic::catch_unwind(panic::AssertUnwindSafe(|| f(&mut nd)));
    let mut pmsg = String::from("none");
    if let Err(e) = res {
        if e.downcast_ref::<AssumeViolated>().is_some() {
            pmsg = "assumption-violated".into();
        } else if let Some(s) = e.downcast_ref::<&str>() {
            pmsg = s.to_string();
        } else if let Some(s) = e.downcast_ref::<String>() {
            pmsg = s.clone();
        } else {
            pmsg = "unknown panic".into();
        }
    }
    for l in &nd.log {
        println!("VALUE {}", l);
    }
    let fired = FIRED.lock().unwrap_or_else(|e| e.into_inner());
    println!(
        "REPLAY fired={} panic={}",
        fired.join(","),
        pmsg.replace('\n', " ")
    );
}
