//! One processing call through the public API with caller-owned stack
//! buffers, the index signal as input and sentinel-filled output, plus the
//! observations every monitor needs.

use crate::nd::Nondet;
use crate::probe::BASE;
use rubato::{Resampler, Sample};

pub const SENT_F: f64 = -12345.0;

#[derive(Clone, Copy)]
pub struct Obs {
    /// getters sampled immediately before the call
    pub next_in: usize,
    pub next_out: usize,
    pub max_in: usize,
    pub max_out: usize,
    pub ok: bool,
    /// returned counts (0,0 on Err)
    pub n_in: usize,
    pub n_out: usize,
    /// 1 + highest index of the caller's output *backing array* that no longer
    /// holds the sentinel (0 if none) — sees writes beyond the slice passed in
    pub written_hi: usize,
    /// no sentinel inside [0, n_out)
    pub dense: bool,
    /// lengths of the slices actually passed
    pub in_len: usize,
    pub out_len: usize,
    /// global stream position of the first input frame of this call
    pub pos0: usize,
}

/// Source-level unrolling (no CBMC loop): the harness's own buffer loops must
/// not dictate the unwind bound, which is sized for rubato's loops only.
#[macro_export]
macro_rules! unroll32 {
    ($i:ident, $n:expr, $body:block) => {
        $crate::unroll32!(@go $i, $n, $body, 0, 1, 2, 3, 4, 5, 6, 7, 8, 9, 10, 11, 12, 13, 14, 15, 16, 17, 18, 19, 20, 21, 22,
            23, 24, 25, 26, 27, 28, 29, 30, 31)
    };
    (@go $i:ident, $n:expr, $body:block, $($k:literal),*) => {
        $( if $k < $n { let $i: usize = $k; $body } )*
    };
}

/// Fill `buf` with the index signal starting at global position `pos`.
pub fn fill_line<T: Sample>(buf: &mut [T], pos: usize) {
    assert!(buf.len() <= 64);
    let n = buf.len();
    unroll32!(i, n, { buf[i] = T::coerce(BASE + pos + i); });
    if n > 32 {
        let m = n - 32;
        unroll32!(i, m, { buf[32 + i] = T::coerce(BASE + pos + 32 + i); });
    }
}

/// One single-channel `process_into_buffer` call. `s_in`/`s_out` are the
/// surplus lengths (buffers "at least" the advertised sizes). The caller's
/// arrays must be large enough for next + surplus (assumed here: a getter
/// exceeding the array is reported by the `next <= max` monitors instead).
pub fn call1<T, R, N, const MAXIN: usize, const MAXOUT: usize>(
    nd: &mut N,
    r: &mut R,
    pos: &mut usize,
    s_in: usize,
    s_out: usize,
    xin: &mut [T; MAXIN],
    out: &mut [T; MAXOUT],
) -> Obs
where
    T: Sample,
    R: Resampler<T>,
    N: Nondet,
{
    let next_in = r.input_frames_next();
    let next_out = r.output_frames_next();
    let max_in = r.input_frames_max();
    let max_out = r.output_frames_max();
    let in_len = next_in + s_in;
    let out_len = next_out + s_out;
    crate::fit!(nd, in_len <= MAXIN && out_len <= MAXOUT, "C04.demand_fits_scenario_bound[base]");
    fill_line(&mut xin[..], *pos);
    let sent = T::coerce(SENT_F);
    *out = [sent; MAXOUT];
    let res = r.process_into_buffer(&[&xin[..in_len]], &mut [&mut out[..out_len]], None);
    let (ok, n_in, n_out) = match res {
        Ok((a, b)) => (true, a, b),
        Err(_) => (false, 0, 0),
    };
    let mut written_hi = 0;
    let mut dense = true;
    assert!(MAXOUT <= 32);
    unroll32!(i, MAXOUT, {
        if out[i] != sent {
            written_hi = i + 1;
        } else if i < n_out {
            dense = false;
        }
    });
    let o = Obs {
        next_in,
        next_out,
        max_in,
        max_out,
        ok,
        n_in,
        n_out,
        written_hi,
        dense,
        in_len,
        out_len,
        pos0: *pos,
    };
    *pos += n_in;
    o
}

/// Call-level monitors of C03/C04 for one observation, under a region tag.
/// `fixed_out`: the type promises exactly `output_frames_next()` frames.
#[macro_export]
macro_rules! obs_checks {
    ($o:expr, $fixed_out:expr, $region:literal) => {{
        let o = $o;
        $crate::check!(o.next_in <= o.max_in, concat!("C04.next_le_max_in[", $region, "]"));
        $crate::check!(o.next_out <= o.max_out, concat!("C04.next_le_max_out[", $region, "]"));
        $crate::check!(o.ok, concat!("C03.ok[", $region, "]"));
        if o.ok {
            $crate::check!(o.n_in == o.next_in, concat!("C04.consumed_eq_next[", $region, "]"));
            if $fixed_out {
                $crate::check!(o.n_out == o.next_out, concat!("C04.written_eq_next[", $region, "]"));
            } else {
                $crate::check!(o.n_out <= o.next_out, concat!("C04.written_le_next[", $region, "]"));
            }
            $crate::check!(
                o.written_hi == o.n_out && o.dense,
                concat!("C04.returned_eq_written[", $region, "]")
            );
        }
        // frames beyond the advertised count (still inside the caller's backing array)
        $crate::check!(o.written_hi <= o.next_out, concat!("C04.no_write_beyond_next[", $region, "]"));
    }};
}
