//! Native differential programs used to confirm Engine-M (mirsym)
//! counterexamples against the real build. They print MISMATCH when the
//! real code deviates from the property, OK otherwise.
use rubato::sinc_interpolator::sinc_interpolator_avx::AvxInterpolator;
use rubato::sinc_interpolator::sinc_interpolator_sse::SseInterpolator;
use rubato::sinc_interpolator::{ScalarInterpolator, SincInterpolator};
use rubato::{
    FastFixedOut, PolynomialDegree, Resampler, SincFixedOut, SincInterpolationType, WindowFunction,
};

fn poly(t: f64, d: usize) -> f64 {
    // moderate, all-nonzero coefficients in t/40
    let u = t / 40.0;
    let mut acc = 0.0;
    let mut j = d + 1;
    while j > 0 {
        j -= 1;
        acc = acc * u + (1.0 + j as f64 * 0.37) * if j % 2 == 0 { 1.0 } else { -1.0 };
    }
    acc
}

/// (d+1)-th finite difference of a uniformly sampled degree-d polynomial is 0.
fn max_fd(v: &[f64], d: usize) -> (f64, f64) {
    let mut w: Vec<f64> = v.to_vec();
    let scale = v.iter().fold(0.0f64, |a, b| a.max(b.abs()));
    for _ in 0..=d {
        w = w.windows(2).map(|p| p[1] - p[0]).collect();
    }
    (w.iter().fold(0.0f64, |a, b| a.max(b.abs())), scale)
}

struct PolyKernel {
    len: usize,
    n: usize,
    d: usize,
}
impl SincInterpolator<f64> for PolyKernel {
    fn get_sinc_interpolated(&self, wave: &[f64], index: usize, subindex: usize) -> f64 {
        // wave carries the line x[n] = n (+ pre-roll zeros); evaluate an exact
        // degree-d polynomial at the position this request stands for
        let pos = wave[index + self.len / 2] + subindex as f64 / self.n as f64;
        poly(pos, self.d)
    }
    fn len(&self) -> usize {
        self.len
    }
    fn nbr_sincs(&self) -> usize {
        self.n
    }
}

pub fn m_c08(label: &str) -> bool {
    let mut bad = false;
    for &ratio in &[0.731f64, 1.0, 1.37, 2.9] {
        let (out, d): (Vec<f64>, usize) = match label {
            "fast.septic" | "fast.quintic" | "fast.cubic" | "fast.linear" => {
                let (deg, d) = match label {
                    "fast.septic" => (PolynomialDegree::Septic, 7),
                    "fast.quintic" => (PolynomialDegree::Quintic, 5),
                    "fast.cubic" => (PolynomialDegree::Cubic, 3),
                    _ => (PolynomialDegree::Linear, 1),
                };
                let mut r = FastFixedOut::<f64>::new(ratio, 1.0, deg, 64, 1).unwrap();
                let mut pos = 0usize;
                let mut out = vec![];
                for _ in 0..3 {
                    let n = r.input_frames_next();
                    let x: Vec<f64> = (0..n).map(|i| poly((pos + i) as f64, d)).collect();
                    pos += n;
                    let o = r.process(&[x], None).unwrap();
                    out.extend_from_slice(&o[0]);
                }
                (out[40..].to_vec(), d)
            }
            _ => {
                let (it, d, f) = match label {
                    "sinc.cubic" => (SincInterpolationType::Cubic, 3, 4),
                    "sinc.quadratic" => (SincInterpolationType::Quadratic, 2, 4),
                    _ => (SincInterpolationType::Linear, 1, 4),
                };
                let k = Box::new(PolyKernel { len: 8, n: f, d });
                let mut r = SincFixedOut::<f64>::new_with_interpolator(ratio, 1.0, it, k, 64, 1).unwrap();
                let mut pos = 0usize;
                let mut out = vec![];
                for _ in 0..3 {
                    let n = r.input_frames_next();
                    let x: Vec<f64> = (0..n).map(|i| (pos + i) as f64).collect();
                    pos += n;
                    let o = r.process(&[x], None).unwrap();
                    out.extend_from_slice(&o[0]);
                }
                (out[40..].to_vec(), d)
            }
        };
        let (fd, scale) = max_fd(&out, d);
        let tol = 1e-7 * (1.0 + scale);
        println!("{} ratio {}: max |finite difference^{}| = {:e} (scale {:e}, tol {:e})", label, ratio, d + 1, fd, scale, tol);
        if !(fd <= tol) {
            bad = true;
        }
    }
    bad
}

fn lcg(s: &mut u64) -> f64 {
    *s = s.wrapping_mul(6364136223846793005).wrapping_add(1442695040888963407);
    ((*s >> 11) as f64 / (1u64 << 53) as f64) * 2.0 - 1.0
}

pub fn m_c15(len: usize, f: usize, index: usize, sub: usize, wave_len: usize) -> bool {
    let mut bad = false;
    let w = WindowFunction::BlackmanHarris2;
    let mut seed = 12345u64;
    macro_rules! go {
        ($t:ty, $tol:expr) => {{
            let sc = ScalarInterpolator::<$t>::new(len, f, 0.9, w);
            let mut wave: Vec<$t> = (0..wave_len + 16).map(|_| lcg(&mut seed) as $t).collect();
            let base = sc.get_sinc_interpolated(&wave[..wave_len], index, sub);
            // footprint: poison everything outside [index, index+len)
            let mut poisoned = wave.clone();
            for (i, v) in poisoned.iter_mut().enumerate() {
                if i < index || i >= index + len {
                    *v = <$t>::NAN; // NaN survives a multiplication by a zero weight
                }
            }
            let sum_abs: f64 = (0..len).map(|p| (wave[index + p] as f64).abs()).sum();
            let mut kernels: Vec<(&str, Box<dyn SincInterpolator<$t>>)> = vec![("scalar", Box::new(ScalarInterpolator::<$t>::new(len, f, 0.9, w)))];
            if let Ok(k) = AvxInterpolator::<$t>::new(len, f, 0.9, w) {
                kernels.push(("avx", Box::new(k)));
            }
            if let Ok(k) = SseInterpolator::<$t>::new(len, f, 0.9, w) {
                kernels.push(("sse", Box::new(k)));
            }
            for (name, k) in kernels.iter() {
                let v = k.get_sinc_interpolated(&wave[..wave_len], index, sub);
                let vp = k.get_sinc_interpolated(&poisoned[..wave_len], index, sub);
                let diff = (v as f64 - base as f64).abs();
                let dp = (vp as f64 - v as f64).abs();
                println!("{} {}: value {:e} scalar {:e} diff {:e} poisoned-diff {:e}", stringify!($t), name, v, base, diff, dp);
                if !(diff <= $tol * (sum_abs + 1.0)) || !(dp <= $tol * (sum_abs + 1.0)) || vp.is_nan() {
                    bad = true;
                }
            }
            wave.clear();
        }};
    }
    go!(f32, 1e-5);
    go!(f64, 1e-13);
    bad
}

/// Native impulse experiment (not a check by itself): where does an input event at frame n0
/// come out, compared with n0*ratio + output_delay()? Used to confirm C14 counterexamples.
pub fn m_c14(kind: &str, ratio: f64) -> bool {
    use rubato::{FastFixedIn, SincFixedIn, SincInterpolationParameters};
    let n0 = 300usize;
    let total = 2048usize;
    let (out, delay): (Vec<f64>, usize) = match kind {
        "sinc" => {
            let p = SincInterpolationParameters { sinc_len: 64, f_cutoff: 0.95, oversampling_factor: 128,
                interpolation: SincInterpolationType::Cubic, window: WindowFunction::BlackmanHarris2 };
            let mut r = SincFixedIn::<f64>::new(ratio, 1.0, p, total, 1).unwrap();
            let mut x = vec![0.0f64; total];
            x[n0] = 1.0;
            let d = r.output_delay();
            (r.process(&[x], None).unwrap().remove(0), d)
        }
        _ => {
            let mut r = FastFixedIn::<f64>::new(ratio, 1.0, PolynomialDegree::Cubic, total, 1).unwrap();
            let mut x = vec![0.0f64; total];
            x[n0] = 1.0;
            let d = r.output_delay();
            (r.process(&[x], None).unwrap().remove(0), d)
        }
    };
    // centre of mass of |out|
    let s: f64 = out.iter().map(|v| v.abs()).sum();
    let c: f64 = out.iter().enumerate().map(|(i, v)| i as f64 * v.abs()).sum::<f64>() / s;
    let expected = n0 as f64 * ratio + delay as f64;
    let tol = ratio.max(1.0) + 1.0;
    println!("{} ratio {}: event centred at output frame {:.3}, n*ratio + output_delay() = {:.3} (delay {}), tolerance {:.1}", kind, ratio, c, expected, delay, tol);
    (c - expected).abs() > tol
}

/// Engine-M counterexample for the setter predicate (C12): does the real setter disagree
/// with original/max <= r <= original*max for these concrete values?
pub fn m_c12(kind: &str, orig: f64, max: f64, r: f64) -> bool {
    use rubato::{FastFixedIn, SincFixedIn};
    let want = orig / max <= r && r <= orig * max;
    let got = match kind {
        "FastFixedIn" => FastFixedIn::<f64>::new(orig, max, PolynomialDegree::Linear, 4, 1).map(|mut x| x.set_resample_ratio(r, false).is_ok()),
        "FastFixedOut" => FastFixedOut::<f64>::new(orig, max, PolynomialDegree::Linear, 4, 1).map(|mut x| x.set_resample_ratio(r, false).is_ok()),
        "SincFixedIn" => SincFixedIn::<f64>::new_with_interpolator(orig, max, SincInterpolationType::Linear, Box::new(PolyKernel { len: 8, n: 2, d: 1 }), 4, 1)
            .map(|mut x| x.set_resample_ratio(r, false).is_ok()),
        _ => SincFixedOut::<f64>::new_with_interpolator(orig, max, SincInterpolationType::Linear, Box::new(PolyKernel { len: 8, n: 2, d: 1 }), 4, 1)
            .map(|mut x| x.set_resample_ratio(r, false).is_ok()),
    };
    match got {
        Ok(g) => {
            println!("{} orig {:e} max {:e} r {:e}: accepted {} documented {}", kind, orig, max, r, g, want);
            g != want
        }
        Err(_) => {
            println!("constructor rejected the arguments");
            false
        }
    }
}
