//! Nondeterminism source shared by the Kani build (symbolic values) and the
//! native replay build (bytes of a solver counterexample, in `kani::any()`
//! call order), plus the tagged-assertion macros.

pub trait Nondet {
    fn f64(&mut self) -> f64;
    fn f32(&mut self) -> f32;
    fn usize(&mut self) -> usize;
    fn u8(&mut self) -> u8;
    fn bool(&mut self) -> bool;
    /// Constrain the values drawn so far. Kani: `kani::assume`. Replay: a
    /// violated assumption means the byte vector does not belong to this
    /// harness (encoding mismatch) and is reported as such.
    fn assume(&mut self, c: bool);
    /// usize in [lo, hi] (inclusive)
    fn usize_in(&mut self, lo: usize, hi: usize) -> usize {
        let v = self.usize();
        self.assume(v >= lo && v <= hi);
        v
    }
}

#[cfg(kani)]
pub struct KaniNd;

#[cfg(kani)]
impl Nondet for KaniNd {
    fn f64(&mut self) -> f64 {
        kani::any()
    }
    fn f32(&mut self) -> f32 {
        kani::any()
    }
    fn usize(&mut self) -> usize {
        kani::any()
    }
    fn u8(&mut self) -> u8 {
        kani::any()
    }
    fn bool(&mut self) -> bool {
        kani::any()
    }
    fn assume(&mut self, c: bool) {
        kani::assume(c)
    }
}

/// Replay source: byte vectors in call order.
pub struct FileNd {
    pub vals: Vec<Vec<u8>>,
    pub pos: usize,
    pub log: Vec<String>,
}

impl FileNd {
    pub fn new(vals: Vec<Vec<u8>>) -> Self {
        FileNd {
            vals,
            pos: 0,
            log: Vec::new(),
        }
    }
    fn take(&mut self, n: usize) -> Vec<u8> {
        if self.pos >= self.vals.len() {
            // Kani omits values the failing path never reads; zero is as good as any.
            self.pos += 1;
            return vec![0u8; n];
        }
        let v = self.vals[self.pos].clone();
        self.pos += 1;
        if v.len() != n {
            record_fail("REPLAY.width_mismatch");
            let mut w = v;
            w.resize(n, 0);
            return w;
        }
        v
    }
}

impl Nondet for FileNd {
    fn f64(&mut self) -> f64 {
        let b = self.take(8);
        let v = f64::from_le_bytes(b.try_into().unwrap());
        self.log.push(format!("f64 {:e} ({:#018x})", v, v.to_bits()));
        v
    }
    fn f32(&mut self) -> f32 {
        let b = self.take(4);
        let v = f32::from_le_bytes(b.try_into().unwrap());
        self.log.push(format!("f32 {:e}", v));
        v
    }
    fn usize(&mut self) -> usize {
        let b = self.take(8);
        let v = usize::from_le_bytes(b.try_into().unwrap());
        self.log.push(format!("usize {}", v));
        v
    }
    fn u8(&mut self) -> u8 {
        let v = self.take(1)[0];
        self.log.push(format!("u8 {}", v));
        v
    }
    fn bool(&mut self) -> bool {
        let v = self.take(1)[0] != 0;
        self.log.push(format!("bool {}", v));
        v
    }
    fn assume(&mut self, c: bool) {
        if !c {
            record_fail("REPLAY.assumption_violated");
            // Unwind out of the harness body: nothing after a violated
            // assumption is part of the counterexample.
            std::panic::panic_any(AssumeViolated);
        }
    }
}

pub struct AssumeViolated;

use std::sync::Mutex;
pub static FIRED: Mutex<Vec<&'static str>> = Mutex::new(Vec::new());

pub fn record_fail(tag: &'static str) {
    let mut g = FIRED.lock().unwrap_or_else(|e| e.into_inner());
    if !g.contains(&tag) {
        g.push(tag);
    }
}

/// Tagged assertion. Under Kani an ordinary `assert!` whose message is the tag
/// (the orchestrator attributes CBMC checks to properties by it); natively the
/// failure is recorded and execution continues so that one replay can confirm
/// several tags.
#[macro_export]
macro_rules! check {
    ($c:expr, $tag:expr) => {{
        #[cfg(kani)]
        {
            assert!($c, $tag);
        }
        #[cfg(not(kani))]
        {
            if !($c) {
                $crate::nd::record_fail($tag);
            }
        }
    }};
}

/// Size guard of a harness buffer: the resampler's demand must fit the (concrete) buffer of the
/// scenario. Asserted FIRST (a demand beyond the bound is reported, not pruned), then assumed so
/// that the rest of the harness stays in bounds.
#[macro_export]
macro_rules! fit {
    ($nd:expr, $c:expr, $tag:expr) => {{
        let c: bool = $c;
        $crate::check!(c, $tag);
        $nd.assume(c);
    }};
}

/// Reachability / vacuity witness: must come back SATISFIED under Kani.
#[macro_export]
macro_rules! cover {
    ($c:expr, $tag:literal) => {{
        #[cfg(kani)]
        {
            kani::cover!($c, $tag);
        }
        #[cfg(not(kani))]
        {
            let _ = $c;
        }
    }};
}

/// Declares harnesses: each `fn name(nd) { body }` becomes a generic body
/// usable natively (replay) and a `#[kani::proof]` entry; a lookup table is
/// generated for the replay binary.
#[macro_export]
macro_rules! harnesses {
    ($( $(#[$attr:meta])* fn $name:ident($nd:ident) $body:block )*) => {
        $(
            #[allow(unused_variables, unused_mut)]
            pub fn $name<N: $crate::nd::Nondet>($nd: &mut N) $body
        )*
        #[cfg(kani)]
        mod proofs {
            $(
                #[kani::proof]
                $(#[$attr])*
                fn $name() {
                    super::$name(&mut $crate::nd::KaniNd)
                }
            )*
        }
        pub const TABLE: &[(&str, fn(&mut $crate::nd::FileNd))] = &[
            $( (stringify!($name), $name::<$crate::nd::FileNd> as fn(&mut $crate::nd::FileNd)), )*
        ];
    };
}
