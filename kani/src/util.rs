//! Small helpers shared by the harnesses.
use rubato::{ResampleError, ResampleResult};

/// Sentinel written into caller output buffers before a call.
pub const SENT: f64 = -12345.0;

#[derive(Clone, Copy, PartialEq, Eq, Debug)]
pub enum EK {
    Ok,
    Ratio,
    Sync,
    InCh,
    OutCh,
    MaskCh,
    InLen,
    OutLen,
    Chunk,
    ChunkNA,
}

pub fn kind<T>(r: &ResampleResult<T>) -> EK {
    match r {
        Ok(_) => EK::Ok,
        Err(ResampleError::RatioOutOfBounds { .. }) => EK::Ratio,
        Err(ResampleError::SyncNotAdjustable) => EK::Sync,
        Err(ResampleError::WrongNumberOfInputChannels { .. }) => EK::InCh,
        Err(ResampleError::WrongNumberOfOutputChannels { .. }) => EK::OutCh,
        Err(ResampleError::WrongNumberOfMaskChannels { .. }) => EK::MaskCh,
        Err(ResampleError::InsufficientInputBufferSize { .. }) => EK::InLen,
        Err(ResampleError::InsufficientOutputBufferSize { .. }) => EK::OutLen,
        Err(ResampleError::InvalidChunkSize { .. }) => EK::Chunk,
        Err(ResampleError::ChunkSizeNotAdjustable) => EK::ChunkNA,
    }
}

/// Drop a value without running its destructor. Used at the end of harnesses:
/// the drop glue of `Vec<Vec<T>>` / `Box<dyn ..>` / `Arc<dyn ..>` is not part
/// of any property and costs solver time.
pub fn forget<T>(v: T) {
    std::mem::forget(v)
}
