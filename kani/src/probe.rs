//! Probing `SincInterpolator` — a public-API argument to
//! `Sinc*::new_with_interpolator`, not a stub. It asserts the callee-side
//! contract the real kernels assert (window inside the slice, sub-filter index
//! in range) and returns a value encoding *which input position* was
//! requested, so that with the index signal x[n] = BASE + n the output of the
//! real position logic is the evaluation instant itself.

use rubato::sinc_interpolator::SincInterpolator;

/// Offset of the index signal: keeps every line value distinct from the zero
/// pre-roll / reset contents.
pub const BASE: usize = 1024;

/// Set when a requested window was not entirely on the index line (it touched
/// the zero pre-roll or stale storage). Only meaningful while `STRICT`.
pub static mut OFFLINE: bool = false;
pub static mut STRICT: bool = false;
/// Contract violations seen by the probe (mirrors the kernels' `assert!`s).
pub static mut BAD_WINDOW: bool = false;
pub static mut BAD_SUBINDEX: bool = false;
pub static mut CALLS: usize = 0;

pub fn reset_flags() {
    unsafe {
        OFFLINE = false;
        STRICT = false;
        BAD_WINDOW = false;
        BAD_SUBINDEX = false;
        CALLS = 0;
    }
}
pub fn set_strict(on: bool) {
    unsafe { STRICT = on }
}
pub fn offline() -> bool {
    unsafe { OFFLINE }
}
pub fn bad_window() -> bool {
    unsafe { BAD_WINDOW }
}
pub fn bad_subindex() -> bool {
    unsafe { BAD_SUBINDEX }
}
pub fn calls() -> usize {
    unsafe { CALLS }
}

pub struct Probe {
    pub len: usize,
    pub n: usize,
}

macro_rules! probe_impl {
    ($t:ty) => {
        impl SincInterpolator<$t> for Probe {
            fn get_sinc_interpolated(&self, wave: &[$t], index: usize, subindex: usize) -> $t {
                unsafe { CALLS += 1 };
                // the two conditions every real kernel asserts
                if !(index.wrapping_add(self.len) < wave.len()) {
                    unsafe { BAD_WINDOW = true };
                    return 0.0;
                }
                if !(subindex < self.n) {
                    unsafe { BAD_SUBINDEX = true };
                    return 0.0;
                }
                let c = wave[index + self.len / 2];
                if unsafe { STRICT } {
                    let len = self.len;
                    $crate::unroll32!(p, len, {
                        let want = c + (p as $t) - ((len / 2) as $t);
                        if wave[index + p] != want {
                            unsafe { OFFLINE = true };
                        }
                    });
                }
                c + (subindex as $t) / (self.n as $t)
            }
            fn len(&self) -> usize {
                self.len
            }
            fn nbr_sincs(&self) -> usize {
                self.n
            }
        }
    };
}
probe_impl!(f64);
probe_impl!(f32);

pub fn boxed64(len: usize, n: usize) -> Box<dyn SincInterpolator<f64>> {
    Box::new(Probe { len, n })
}
pub fn boxed32(len: usize, n: usize) -> Box<dyn SincInterpolator<f32>> {
    Box::new(Probe { len, n })
}

/// Window-sum kernel (all weights 1): the output depends on EVERY sample of the
/// requested window, so stale or uncleared history is visible in the values
/// (the centre-sample `Probe` above ignores the rest of the window unless STRICT).
pub struct SumProbe {
    pub len: usize,
    pub n: usize,
}
impl SincInterpolator<f64> for SumProbe {
    fn get_sinc_interpolated(&self, wave: &[f64], index: usize, subindex: usize) -> f64 {
        if !(index.wrapping_add(self.len) < wave.len()) {
            unsafe { BAD_WINDOW = true };
            return 0.0;
        }
        if !(subindex < self.n) {
            unsafe { BAD_SUBINDEX = true };
            return 0.0;
        }
        let mut acc = 0.0f64;
        let len = self.len;
        crate::unroll32!(p, len, { acc += wave[index + p]; });
        acc + (subindex as f64) / (self.n as f64)
    }
    fn len(&self) -> usize {
        self.len
    }
    fn nbr_sincs(&self) -> usize {
        self.n
    }
}
pub fn boxed64_sum(len: usize, n: usize) -> Box<dyn SincInterpolator<f64>> {
    Box::new(SumProbe { len, n })
}
