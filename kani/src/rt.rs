//! Real-time section monitor for C09: between `begin()` and `end()` no heap
//! allocation, reallocation or deallocation may happen.
//! Under Kani the global allocator entry points are stubbed by asserting
//! wrappers (`#[kani::stub(std::alloc::alloc, rt::k_alloc)]` ...); natively
//! (replay) a counting global allocator does the same job.
use std::alloc::Layout;

pub static mut IN_RT: bool = false;
pub static mut ALLOCS_OUTSIDE: usize = 0;

#[cfg(kani)]
extern "Rust" {
    fn __rust_alloc(size: usize, align: usize) -> *mut u8;
    fn __rust_alloc_zeroed(size: usize, align: usize) -> *mut u8;
    fn __rust_dealloc(ptr: *mut u8, size: usize, align: usize);
    fn __rust_realloc(ptr: *mut u8, old_size: usize, align: usize, new_size: usize) -> *mut u8;
}

#[cfg(kani)]
pub unsafe fn k_alloc(l: Layout) -> *mut u8 {
    assert!(!IN_RT, "C09.alloc[base]");
    ALLOCS_OUTSIDE += 1;
    __rust_alloc(l.size(), l.align())
}
#[cfg(kani)]
pub unsafe fn k_alloc_zeroed(l: Layout) -> *mut u8 {
    assert!(!IN_RT, "C09.alloc[base]");
    ALLOCS_OUTSIDE += 1;
    __rust_alloc_zeroed(l.size(), l.align())
}
#[cfg(kani)]
pub unsafe fn k_dealloc(p: *mut u8, l: Layout) {
    assert!(!IN_RT, "C09.dealloc[base]");
    __rust_dealloc(p, l.size(), l.align())
}
#[cfg(kani)]
pub unsafe fn k_realloc(p: *mut u8, l: Layout, new_size: usize) -> *mut u8 {
    assert!(!IN_RT, "C09.realloc[base]");
    __rust_realloc(p, l.size(), l.align(), new_size)
}

/// `Vec` growth goes through the private `alloc::alloc::realloc_nonnull` in this toolchain's std
/// (not through the public `realloc`), so that one is stubbed as well.
#[cfg(kani)]
pub unsafe fn k_realloc_nn(p: std::ptr::NonNull<u8>, l: Layout, new_size: usize) -> *mut u8 {
    assert!(!IN_RT, "C09.realloc[base]");
    __rust_realloc(p.as_ptr(), l.size(), l.align(), new_size)
}

/// likewise `Global::deallocate` goes through the private `dealloc_nonnull`
#[cfg(kani)]
pub unsafe fn k_dealloc_nn(p: std::ptr::NonNull<u8>, l: Layout) {
    assert!(!IN_RT, "C09.dealloc[base]");
    __rust_dealloc(p.as_ptr(), l.size(), l.align())
}

#[cfg(not(kani))]
pub mod native {
    use std::alloc::{GlobalAlloc, Layout, System};
    use std::sync::atomic::{AtomicBool, AtomicUsize, Ordering};
    pub static RT: AtomicBool = AtomicBool::new(false);
    pub static N_ALLOC: AtomicUsize = AtomicUsize::new(0);
    pub static N_DEALLOC: AtomicUsize = AtomicUsize::new(0);
    pub static N_REALLOC: AtomicUsize = AtomicUsize::new(0);
    pub static N_OUTSIDE: AtomicUsize = AtomicUsize::new(0);
    pub struct Counting;
    unsafe impl GlobalAlloc for Counting {
        unsafe fn alloc(&self, l: Layout) -> *mut u8 {
            if RT.load(Ordering::Relaxed) { N_ALLOC.fetch_add(1, Ordering::Relaxed); } else { N_OUTSIDE.fetch_add(1, Ordering::Relaxed); }
            System.alloc(l)
        }
        unsafe fn alloc_zeroed(&self, l: Layout) -> *mut u8 {
            if RT.load(Ordering::Relaxed) { N_ALLOC.fetch_add(1, Ordering::Relaxed); } else { N_OUTSIDE.fetch_add(1, Ordering::Relaxed); }
            System.alloc_zeroed(l)
        }
        unsafe fn dealloc(&self, p: *mut u8, l: Layout) {
            if RT.load(Ordering::Relaxed) { N_DEALLOC.fetch_add(1, Ordering::Relaxed); }
            System.dealloc(p, l)
        }
        unsafe fn realloc(&self, p: *mut u8, l: Layout, n: usize) -> *mut u8 {
            if RT.load(Ordering::Relaxed) { N_REALLOC.fetch_add(1, Ordering::Relaxed); }
            System.realloc(p, l, n)
        }
    }
}

pub fn begin() {
    #[cfg(kani)]
    unsafe { IN_RT = true; }
    #[cfg(not(kani))]
    native::RT.store(true, std::sync::atomic::Ordering::SeqCst);
}

pub fn end() {
    #[cfg(kani)]
    unsafe { IN_RT = false; }
    #[cfg(not(kani))]
    {
        use std::sync::atomic::Ordering;
        native::RT.store(false, Ordering::SeqCst);
        if native::N_ALLOC.swap(0, Ordering::SeqCst) > 0 { crate::nd::record_fail("C09.alloc[base]"); }
        if native::N_DEALLOC.swap(0, Ordering::SeqCst) > 0 { crate::nd::record_fail("C09.dealloc[base]"); }
        if native::N_REALLOC.swap(0, Ordering::SeqCst) > 0 { crate::nd::record_fail("C09.realloc[base]"); }
    }
}

pub fn allocs_outside() -> usize {
    #[cfg(kani)]
    unsafe { return ALLOCS_OUTSIDE; }
    #[cfg(not(kani))]
    return native::N_OUTSIDE.load(std::sync::atomic::Ordering::SeqCst);
}
