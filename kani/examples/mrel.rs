//! Native replay of an Engine-M counterexample for the relative ratio setter
//! (C12.relative_predicate.<type>): mrel <type> <orig_bits> <max_bits> <x_bits>.
//! Lives outside src/ so that the harness-module cache keys do not depend on it.
use rubato::{FastFixedIn, FastFixedOut, PolynomialDegree, Resampler, SincFixedIn, SincFixedOut, SincInterpolationParameters, SincInterpolationType, WindowFunction};

fn main() {
    let a: Vec<String> = std::env::args().collect();
    let f = |s: &String| f64::from_bits(u64::from_str_radix(s.trim_start_matches("0x"), 16).unwrap());
    let (orig, max, x) = (f(&a[2]), f(&a[3]), f(&a[4]));
    let want = 1.0 / max <= x && x <= max;
    let p = SincInterpolationParameters { sinc_len: 8, f_cutoff: 0.9, oversampling_factor: 4,
        interpolation: SincInterpolationType::Linear, window: WindowFunction::Hann };
    let got = match a[1].as_str() {
        "FastFixedIn" => FastFixedIn::<f64>::new(orig, max, PolynomialDegree::Linear, 4, 1).map(|mut r| r.set_resample_ratio_relative(x, false).is_ok()),
        "FastFixedOut" => FastFixedOut::<f64>::new(orig, max, PolynomialDegree::Linear, 4, 1).map(|mut r| r.set_resample_ratio_relative(x, false).is_ok()),
        "SincFixedIn" => SincFixedIn::<f64>::new(orig, max, p, 4, 1).map(|mut r| r.set_resample_ratio_relative(x, false).is_ok()),
        _ => SincFixedOut::<f64>::new(orig, max, p, 4, 1).map(|mut r| r.set_resample_ratio_relative(x, false).is_ok()),
    };
    match got {
        Ok(g) => {
            println!("{} orig {:e} max {:e} x {:e}: accepted {} documented {}", a[1], orig, max, x, g, want);
            println!("{}", if g != want { "MISMATCH" } else { "OK" });
        }
        Err(_) => println!("constructor rejected the arguments\nOK"),
    }
}
