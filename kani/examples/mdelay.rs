//! Native replay for C14.delay_report.<FFT type>: impulse experiment on the real synchronous
//! resamplers. mdelay <type>; prints MISMATCH when the centre of the output event differs from
//! n*ratio + output_delay() by more than max(1, ratio) + 1 output frames for some configuration.
use rubato::{FftFixedIn, FftFixedInOut, FftFixedOut, Resampler};

fn run<R: Resampler<f64>>(r: &mut R, ratio: f64, n0: usize) -> (f64, f64) {
    let delay = r.output_delay();
    let mut out: Vec<f64> = Vec::new();
    let mut pos = 0usize;
    while out.len() < (n0 as f64 * ratio) as usize + 4 * delay + 4096 {
        let need = r.input_frames_next();
        let x: Vec<f64> = (pos..pos + need).map(|i| if i == n0 { 1.0 } else { 0.0 }).collect();
        pos += need;
        out.extend_from_slice(&r.process(&[x], None).unwrap()[0]);
    }
    let s: f64 = out.iter().map(|v| v * v).sum();
    let c: f64 = out.iter().enumerate().map(|(i, v)| i as f64 * v * v).sum::<f64>() / s;
    (c, n0 as f64 * ratio + delay as f64)
}

fn main() {
    let a: Vec<String> = std::env::args().collect();
    let cfgs = [(44100usize, 48000usize, 1024usize, 2usize), (44100, 48000, 1024, 1), (44100, 48000, 960, 1), (96000, 44100, 2048, 4)];
    let mut bad = false;
    for (fi, fo, chunk, sub) in cfgs {
        let ratio = fo as f64 / fi as f64;
        let (c, e) = match a[1].as_str() {
            "FftFixedIn" => run(&mut FftFixedIn::<f64>::new(fi, fo, chunk, sub, 1).unwrap(), ratio, 1000),
            "FftFixedOut" => run(&mut FftFixedOut::<f64>::new(fi, fo, chunk, sub, 1).unwrap(), ratio, 1000),
            _ => run(&mut FftFixedInOut::<f64>::new(fi, fo, chunk, 1).unwrap(), ratio, 1000),
        };
        let tol = ratio.max(1.0) + 1.0;
        println!("{} {}->{} chunk {} sub {}: event at {:.2}, n*ratio+output_delay() = {:.2} (tol {:.2})", a[1], fi, fo, chunk, sub, c, e, tol);
        if (c - e).abs() > tol {
            bad = true;
        }
    }
    println!("{}", if bad { "MISMATCH" } else { "OK" });
}
